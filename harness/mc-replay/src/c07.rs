//! C07 — an intent can be committed at most once before it expires.
//!
//! Three layers, all on the real code:
//!
//! * **Layer 1 (ring arithmetic, full scale, exhaustive)** — the real `TransactionTrackerSubstateV1`
//!   (`partition_for_expiry_epoch`, `advance`) with the production constants, for every start partition,
//!   every number of advances up to two ring revolutions and every expiry-epoch offset inside and around the
//!   covered range, compared with a closed-form reference written from the ring description (DESIGN A.5):
//!   range, block → partition map, injectivity, stability of the answer under `advance()`, and "the
//!   partition handed back by `advance()` holds only expired blocks". Plus the same sweep on small rings.
//! * **Layer 2 (real engine, scaled-down ring, explicit-state exploration)** — the tracker substate of a
//!   test database is rewritten to 4 partitions × 2 epochs (the ring parameters live in the substate; the
//!   engine is unmodified), static validation uses `max_epoch_range = (4-1)*2 = 6` (the relation the repo
//!   asserts for the production constants, at equality). Real notarized V1 and V2 transactions (with a
//!   signed subintent) with explicit epoch windows are committed (success / committed failure), epochs are
//!   advanced with real round-change transactions, and in *every* reached state every stored transaction
//!   is replayed byte-identically, re-signed (a different transaction carrying the same intent) and — for
//!   subintents — inside a brand-new root transaction. Reference model: the set of committed
//!   (intent, expiry) pairs, written from the statement.
//! * **Layer 3 (thorough; real engine, production-size ring, long fixed histories)** — boundary schedules
//!   around the first three rotations, around the partition-number wrap and around the 191st rotation, with
//!   expiries at block boundaries ±1 and at the validation maximum; tens of thousands of epoch
//!   transactions.
use crate::explore::{explore_all, Item};
use crate::ring::*;
use mc_core::{par_for, BfsStats, Ctx, Level, Local, Machine};
use mc_ledger::*;
use radix_transactions::validation::*;
use serde_json::{json, Map, Value};
use std::collections::{BTreeMap, BTreeSet};

// ================================================================================================
// Layer 1 — ring arithmetic
// ================================================================================================

#[derive(Clone, Copy, Debug)]
struct RingParams {
    lo: u8,
    hi: u8,
    epp: u64,
}

impl RingParams {
    fn n(&self) -> u64 {
        (self.hi - self.lo) as u64 + 1
    }
}

/// Reference (DESIGN A.5): with origin (start_epoch, start_partition), expiry epoch e is covered iff
/// start ≤ e < start + N·epp, and lives in partition lo + ((start_partition − lo) + (e − start)/epp) mod N.
fn ref_partition(p: RingParams, start_epoch: u64, start_partition: u8, e: u64) -> Option<u8> {
    if e < start_epoch || (e - start_epoch) as u128 >= p.n() as u128 * p.epp as u128 {
        return None;
    }
    let block = (e - start_epoch) / p.epp;
    Some(p.lo + (((start_partition - p.lo) as u64 + block) % p.n()) as u8)
}

fn real_partition(t: &TransactionTrackerSubstateV1, e: u64) -> Result<Option<u8>, String> {
    mc_core::catch(|| t.partition_for_expiry_epoch(Epoch::of(e)))
}

/// One (parameters, start partition, start epoch) case: all advances 0..=k_max, all offsets.
fn layer1_case(p: RingParams, sp: u8, s0: u64, k_max: u64, margin: u64, l: &mut Local) -> u64 {
    let case = |k: u64, d: i64| json!({"layer": 1, "lo": p.lo, "hi": p.hi, "epp": p.epp, "start_partition": sp, "start_epoch": s0, "advances": k, "offset": d});
    let mut t = TransactionTrackerSubstateV1 {
        start_epoch: s0,
        start_partition: sp,
        partition_range_start_inclusive: p.lo,
        partition_range_end_inclusive: p.hi,
        epochs_per_partition: p.epp,
    };
    let span = p.n() * p.epp;
    let mut prev: Vec<Option<u8>> = vec![];
    let mut evals = 0u64;
    for k in 0..=k_max {
        // reference origin after k advances
        let ref_start = s0 + k * p.epp;
        let ref_sp = p.lo + (((sp - p.lo) as u64 + k) % p.n()) as u8;
        let mut discarded: Option<u8> = None;
        if k > 0 {
            match mc_core::catch(|| t.advance()) {
                Ok(d) => discarded = Some(d),
                Err(e) => {
                    l.violation("ring:advance-panicked", format!("advance() panicked: {e}"), case(k, 0));
                    return evals;
                }
            }
        }
        if t.start_epoch != ref_start || t.start_partition != ref_sp {
            l.violation(
                "ring:origin-after-advance",
                format!("after {k} advance(s): origin ({}, {}) but the ring description gives ({ref_start}, {ref_sp})", t.start_epoch, t.start_partition),
                case(k, 0),
            );
            return evals;
        }
        // below / above the covered range
        for d in 1..=margin {
            if ref_start >= d {
                evals += 1;
                match real_partition(&t, ref_start - d) {
                    Ok(None) => {}
                    other => {
                        l.violation("ring:covers-expired-epoch", format!("epoch start−{d} answered {other:?}, expected None"), case(k, -(d as i64)));
                        return evals;
                    }
                }
            }
            evals += 1;
            match real_partition(&t, ref_start + span + d - 1) {
                Ok(None) => {}
                other => {
                    l.violation("ring:covers-beyond-range", format!("epoch start+{} answered {other:?}, expected None", span + d - 1), case(k, (span + d - 1) as i64));
                    return evals;
                }
            }
        }
        // inside
        let mut cur: Vec<Option<u8>> = Vec::with_capacity(span as usize);
        for d in 0..span {
            evals += 1;
            let real = match real_partition(&t, ref_start + d) {
                Ok(r) => r,
                Err(e) => {
                    l.violation("ring:lookup-panicked", format!("partition_for_expiry_epoch panicked: {e}"), case(k, d as i64));
                    return evals;
                }
            };
            let expect = ref_partition(p, ref_start, ref_sp, ref_start + d);
            if real != expect {
                l.violation("ring:partition-map", format!("offset {d}: real {real:?}, ring description {expect:?}"), case(k, d as i64));
                return evals;
            }
            cur.push(real);
        }
        // laws on the *real* answers (independent of the closed form)
        let mut blocks = BTreeSet::new();
        for b in 0..p.n() {
            let first = cur[(b * p.epp) as usize];
            for j in 0..p.epp {
                if cur[(b * p.epp + j) as usize] != first {
                    l.violation("ring:block-split", format!("block {b} maps to more than one partition"), case(k, (b * p.epp + j) as i64));
                    return evals;
                }
            }
            blocks.insert(first);
        }
        if blocks.len() as u64 != p.n() || blocks.contains(&None) {
            l.violation("ring:blocks-not-distinct", format!("{} distinct partitions for {} blocks", blocks.len(), p.n()), case(k, 0));
            return evals;
        }
        if k > 0 {
            let disc = discarded.unwrap();
            // stability: every epoch still covered keeps its partition
            for d in 0..(span - p.epp) {
                if prev[(d + p.epp) as usize] != cur[d as usize] {
                    l.violation(
                        "ring:lookup-unstable-under-advance",
                        format!("epoch at new offset {d}: partition {:?} before the advance, {:?} after", prev[(d + p.epp) as usize], cur[d as usize]),
                        case(k, d as i64),
                    );
                    return evals;
                }
                if p.n() > 1 && cur[d as usize] == Some(disc) {
                    l.violation("ring:discarded-partition-still-live", format!("advance() handed back partition {disc} but the live epoch at offset {d} maps to it"), case(k, d as i64));
                    return evals;
                }
            }
            // the discarded partition is exactly the one that held the block that is now wholly in the past …
            for j in 0..p.epp {
                if prev[j as usize] != Some(disc) {
                    l.violation("ring:discarded-wrong-partition", format!("advance() handed back {disc}, the expired block lived in {:?}", prev[j as usize]), case(k, j as i64));
                    return evals;
                }
            }
            // … and is reused for the newly covered far block only
            for j in 0..p.epp {
                if cur[(span - p.epp + j) as usize] != Some(disc) {
                    l.violation("ring:recycled-partition", format!("new far block maps to {:?}, the recycled partition is {disc}", cur[(span - p.epp + j) as usize]), case(k, (span - p.epp + j) as i64));
                    return evals;
                }
            }
            l.class("ring:advance-consistent");
        }
        l.class("ring:origin-checked");
        prev = cur;
    }
    evals
}

fn layer1(ctx: &Ctx) -> (u64, Value) {
    let prod = RingParams { lo: PARTITION_RANGE_START, hi: PARTITION_RANGE_END, epp: EPOCHS_PER_PARTITION };
    // (params, start partition, start epoch, max advances, margin)
    let mut cases: Vec<(RingParams, u8, u64, u64, u64)> = vec![];
    let starts: Vec<u64> = ctx.pick(vec![2], vec![2, 1_000_003]);
    for sp in prod.lo..=prod.hi {
        for s in &starts {
            let k = ctx.pick(prod.n() + 3, 2 * prod.n() + 3);
            cases.push((prod, sp, *s, k, 250));
        }
    }
    let n_prod = cases.len();
    // small rings (incl. the 4 × 2 ring of layer 2 and rings ending at partition 255)
    for lo in [65u8, 252] {
        for n in 1u8..=5 {
            if lo as u16 + n as u16 - 1 > 255 {
                continue;
            }
            for epp in 1u64..=3 {
                let p = RingParams { lo, hi: lo + (n - 1), epp };
                for sp in p.lo..=p.hi {
                    cases.push((p, sp, 0, 3 * p.n() + 2, epp + 2));
                    cases.push((p, sp, 7, 3 * p.n() + 2, epp + 2));
                }
            }
        }
    }
    let total = std::sync::atomic::AtomicU64::new(0);
    par_for(ctx, &cases, |c, l| {
        let n = layer1_case(c.0, c.1, c.2, c.3, c.4, l);
        l.evals += n;
        total.fetch_add(n, std::sync::atomic::Ordering::Relaxed);
    });

    // documented margin: coverage − one block ≥ max_epoch_range of every validation configuration
    let mut l = Local::new();
    let covered = (prod.n() - 1) * prod.epp;
    for (name, cfg) in [("babylon", TransactionValidationConfig::babylon()), ("cuttlefish", TransactionValidationConfig::cuttlefish()), ("latest", TransactionValidationConfig::latest())] {
        l.eval();
        if covered < cfg.max_epoch_range {
            l.violation(
                "ring:coverage-below-validation-window",
                format!("ring covers (N−1)·epp = {covered} epochs past the current block, validation config {name} allows windows of {}", cfg.max_epoch_range),
                json!({"layer": 1, "config": name}),
            );
        } else {
            l.class("ring:coverage-margin-ok");
        }
    }
    // the ledger's own tracker really uses these constants, and its validation config too
    {
        let mut sim = new_sim();
        let t = read_tracker(&sim);
        let now = current_epoch(&mut sim);
        let cfg = TransactionValidationConfig::load(sim.substate_db());
        l.eval();
        if t.partition_range_start_inclusive != prod.lo || t.partition_range_end_inclusive != prod.hi || t.epochs_per_partition != prod.epp {
            mc_core::machinery_error(&format!("genesis tracker {t:?} does not use the exported production constants"));
        }
        if covered < cfg.max_epoch_range {
            l.violation("ring:coverage-below-validation-window", format!("ledger validation config allows {} epochs, ring margin {covered}", cfg.max_epoch_range), json!({"layer": 1, "config": "ledger"}));
        }
        if !(t.start_epoch <= now && now < t.start_epoch + t.epochs_per_partition) {
            l.info("genesis-tracker-origin-not-in-first-block");
        }
        l.class("ring:genesis-tracker-uses-production-constants");
    }
    ctx.merge(l);
    let total = total.into_inner();
    (total, json!({"production_cases": n_prod, "small_ring_cases": cases.len() - n_prod, "lookups": total}))
}

// ================================================================================================
// Layer 2 — real engine on the scaled-down ring
// ================================================================================================

const RING_LO: u8 = 65;
const RING_N: u8 = 4;
const RING_EPP: u64 = 2;
const SCALED_RANGE: u64 = (RING_N as u64 - 1) * RING_EPP;

#[derive(Clone, Debug, PartialEq, Eq, Hash, PartialOrd, Ord)]
pub enum Op {
    NextEpoch,
    /// new V1 transaction, window [now+s_off, now+s_off+len)
    V1 { s_off: i8, len: u8, fail: bool },
    /// new V2 transaction: root window (r_off, r_len), one child subintent with window (c_off, c_len)
    V2 { r_off: i8, r_len: u8, c_off: i8, c_len: u8, root_fails: bool },
    /// resubmit the transaction stored in `slot`: byte-identical, or re-signed (same intent, other payload)
    Replay { slot: u8, resigned: bool },
    /// a brand-new root transaction (window [now, now+1)) carrying the subintent stored in `slot`
    ReuseSub { slot: u8, root_fails: bool },
}

fn b(x: bool) -> &'static str {
    if x {
        "1"
    } else {
        "0"
    }
}

pub fn op_code(op: &Op) -> String {
    match op {
        Op::NextEpoch => "N".into(),
        Op::V1 { s_off, len, fail } => format!("V1:{s_off}:{len}:{}", b(*fail)),
        Op::V2 { r_off, r_len, c_off, c_len, root_fails } => format!("V2:{r_off}:{r_len}:{c_off}:{c_len}:{}", b(*root_fails)),
        Op::Replay { slot, resigned } => format!("R:{slot}:{}", b(*resigned)),
        Op::ReuseSub { slot, root_fails } => format!("U:{slot}:{}", b(*root_fails)),
    }
}

pub fn op_parse(s: &str) -> Option<Op> {
    let f: Vec<&str> = s.split(':').collect();
    let i = |k: usize| f.get(k).and_then(|x| x.parse::<i64>().ok());
    Some(match f[0] {
        "N" => Op::NextEpoch,
        "V1" => Op::V1 { s_off: i(1)? as i8, len: i(2)? as u8, fail: i(3)? != 0 },
        "V2" => Op::V2 { r_off: i(1)? as i8, r_len: i(2)? as u8, c_off: i(3)? as i8, c_len: i(4)? as u8, root_fails: i(5)? != 0 },
        "R" => Op::Replay { slot: i(1)? as u8, resigned: i(2)? != 0 },
        "U" => Op::ReuseSub { slot: i(1)? as u8, root_fails: i(2)? != 0 },
        _ => return None,
    })
}

#[derive(Clone, Debug)]
struct Intent {
    hash: Hash,
    start: u64,
    end: u64,
    sub: bool,
}

#[derive(Clone)]
struct Slot {
    v2: bool,
    raw: RawNotarizedTransaction,
    /// what is needed to rebuild a *different* transaction with the same intent
    nonce: u64,
    root_fails: bool,
    root: Intent,
    child: Option<(Intent, DetailedSignedPartialTransactionV2)>,
}

pub struct St {
    sim: Sim,
    /// current epoch as recorded by the ledger (read from the consensus manager substate)
    now: u64,
    /// reference model, from the statement: committed intents and their expiry (end of validity window)
    committed: BTreeMap<Hash, u64>,
    /// every intent this history ever got committed (for the informational stale-record scan)
    ever: BTreeMap<Hash, u64>,
    slots: Vec<Slot>,
    commits_used: u8,
    reuse_used: u8,
    nonce: u64,
}

pub struct RingMachine {
    root: Snap,
    validator: TransactionValidator,
    first_commits: Vec<Op>,
    later_commits: Vec<Op>,
    max_commits: u8,
    max_reuse: u8,
    /// keep replaying an intent for this many epochs after its expiry epoch
    post_expiry: u64,
    /// quick tier: stop a history as soon as *one* of two stored transactions is past its replay window.
    /// What remains is the other transaction alone, at some phase of the ring, with less budget left — a
    /// state whose futures are a subset of those explored from the item "that transaction as first commit
    /// at that phase" (resp. the same item without the second commit), provided records of expired intents
    /// do not influence how other intents are handled. The thorough tier does not use this reduction.
    prune_when_one_dead: bool,
}

fn commit_alphabets(quick: bool) -> (Vec<Op>, Vec<Op>) {
    let v1 = |s_off: i8, len: u8, fail: bool| Op::V1 { s_off, len, fail };
    let v2 = |r: (i8, u8), c: (i8, u8), root_fails: bool| Op::V2 { r_off: r.0, r_len: r.1, c_off: c.0, c_len: c.1, root_fails };
    let mut first = vec![];
    if quick {
        for (s_off, len) in [(0i8, 1u8), (0, 2), (0, 6), (-1, 2), (-1, 6)] {
            first.push(v1(s_off, len, false));
        }
        for (s_off, len) in [(0i8, 2u8), (0, 6), (-1, 6)] {
            first.push(v1(s_off, len, true));
        }
    } else {
        for fail in [false, true] {
            for s_off in [0i8, -1] {
                for len in [1u8, 2, 5, 6] {
                    first.push(v1(s_off, len, fail));
                }
            }
        }
    }
    // not yet valid / longer than validation allows
    first.push(v1(1, 2, false));
    first.push(v1(0, (SCALED_RANGE + 1) as u8, false));
    let child_windows: &[(i8, u8)] = if quick { &[] } else { &[(0, 1), (0, 2), (0, 5), (0, 6), (-1, 2), (-1, 6)] };
    for root_fails in [false, true] {
        if quick {
            first.push(v2((0, 1), (0, 6), root_fails));
            first.push(v2((0, 6), (0, 2), root_fails));
        }
        for r in [(0i8, 1u8), (0, 6)] {
            for c in child_windows {
                first.push(v2(r, *c, root_fails));
            }
        }
    }
    let later = if quick {
        vec![v1(0, 6, false)]
    } else {
        vec![v1(0, 6, false), v1(0, 2, true), v2((0, 1), (0, 6), true), v2((0, 6), (0, 2), false)]
    };
    (first, later)
}

/// Window of the new root transaction that re-uses a stored subintent: it always contains the current
/// epoch and always overlaps the subintent's window, so that static validation passes ("some epoch is valid
/// for all intents") and the *engine* has to decide — also when the subintent is expired or not yet valid.
fn reuse_root_window(now: u64, child: &Intent) -> (u64, u64) {
    (now.min(child.end - 1), (now + 1).max(child.start + 1))
}

impl RingMachine {
    /// The intents a resubmission carries (root first), or None for operations that build a new intent.
    fn carried(&self, st: &St, op: &Op) -> Option<Vec<Intent>> {
        match op {
            Op::Replay { slot, .. } => {
                let s = &st.slots[*slot as usize];
                let mut v = vec![s.root.clone()];
                if let Some((c, _)) = &s.child {
                    v.push(c.clone());
                }
                Some(v)
            }
            Op::ReuseSub { slot, .. } => {
                // the new root intent is fresh by construction; only the child can be a replay
                let c = st.slots[*slot as usize].child.as_ref()?.0.clone();
                let (rs, re) = reuse_root_window(st.now, &c);
                Some(vec![Intent { hash: Hash([0u8; 32]), start: rs, end: re, sub: false }, c])
            }
            _ => None,
        }
    }

    fn must_reject(st: &St, carried: &[Intent]) -> bool {
        let lo = carried.iter().map(|i| i.start).max().unwrap();
        let hi = carried.iter().map(|i| i.end).min().unwrap();
        !(lo <= st.now && st.now < hi) || carried.iter().any(|i| st.committed.contains_key(&i.hash))
    }

    fn new(quick: bool) -> RingMachine {
        let mut sim = new_sim();
        let now = current_epoch(&mut sim);
        let t = read_tracker(&sim);
        for p in t.partition_range_start_inclusive..=t.partition_range_end_inclusive {
            if !partition_entries(&sim, p).is_empty() {
                mc_core::machinery_error("genesis database already holds replay records");
            }
        }
        // test-database setup: a 4-partition × 2-epoch ring starting at the current epoch
        write_tracker(
            &mut sim,
            TransactionTrackerSubstateV1 {
                start_epoch: now,
                start_partition: RING_LO,
                partition_range_start_inclusive: RING_LO,
                partition_range_end_inclusive: RING_LO + RING_N - 1,
                epochs_per_partition: RING_EPP,
            },
        );
        let (first_commits, later_commits) = commit_alphabets(quick);
        RingMachine {
            root: sim.create_snapshot(),
            validator: validator_with_range(SCALED_RANGE),
            first_commits,
            later_commits,
            max_commits: 2,
            max_reuse: if quick { 1 } else { 2 },
            post_expiry: if quick { 0 } else { 1 },
            prune_when_one_dead: quick,
        }
    }

    fn slot_alive(&self, st: &St, s: &Slot) -> bool {
        let last = s.child.as_ref().map(|c| c.0.end).unwrap_or(0).max(s.root.end);
        st.now <= last + self.post_expiry
    }

    /// Oracle for one submitted transaction carrying `carried` intents (root first).
    /// Statement: (a) current epoch outside the validity window ⇒ rejected; (b) carrying an intent that was
    /// committed (root: success or failure; subintent: success) ⇒ rejected while its window could admit it
    /// (after that (a) applies). Nothing else is demanded.
    fn judge(&self, st: &mut St, what: &str, carried: &[Intent], outcome: &Outcome) -> Result<String, (String, String)> {
        let lo = carried.iter().map(|i| i.start).max().unwrap();
        let hi = carried.iter().map(|i| i.end).min().unwrap();
        let outside = !(lo <= st.now && st.now < hi);
        let replayed: Vec<&Intent> = carried.iter().filter(|i| st.committed.contains_key(&i.hash)).collect();
        let must_reject = outside || !replayed.is_empty();
        let describe = |i: &Intent| format!("{}[{},{})", if i.sub { "subintent" } else { "intent" }, i.start, i.end);
        if let Outcome::Panicked(p) = outcome {
            return Err((
                format!("panic:{}", p.rsplit(" @ ").next().unwrap_or("?")),
                format!("{what} at epoch {} (carrying {}) crashed the engine instead of being committed or rejected: {p}", st.now, carried.iter().map(describe).collect::<Vec<_>>().join(" + ")),
            ));
        }
        if must_reject && outcome.committed() {
            let (key, why) = if let Some(i) = replayed.first() {
                (
                    format!("replay-accepted:{}", if i.sub { "subintent" } else { "transaction-intent" }),
                    format!("{} was committed before (expiry {}), current epoch {}", describe(i), i.end, st.now),
                )
            } else {
                ("outside-window-accepted".to_string(), format!("current epoch {} is outside the validity window [{lo},{hi})", st.now))
            };
            return Err((key, format!("{what}: {} although {why}", outcome.label())));
        }
        if outcome.committed() {
            // update the reference model from the statement: root always, subintents on success only
            for i in carried {
                if !i.sub || *outcome == Outcome::Success {
                    st.committed.insert(i.hash, i.end);
                    st.ever.insert(i.hash, i.end);
                }
            }
        }
        let class = match (must_reject, outcome) {
            (true, Outcome::Invalid(_)) | (false, Outcome::Invalid(_)) => format!("{what}:{}", outcome.label()),
            (true, _) => format!("{what}:{}:{}", if !replayed.is_empty() { "replay" } else { "outside-window" }, outcome.label()),
            (false, o) if o.committed() => format!("{what}:fresh:{}", outcome.label()),
            (false, _) => {
                // the statement does not say a fresh in-window intent must be accepted
                format!("{what}:fresh-not-committed:{}", outcome.label())
            }
        };
        Ok(class)
    }

    /// Informational scan of the real ring after a commit (the statement is silent about storage): every
    /// readable record of an intent known to this history sits in the partition whose current block contains
    /// its expiry epoch; anything else is a stale record in a recycled partition.
    fn scan_ring(&self, st: &St) -> Vec<&'static str> {
        let t = read_tracker(&st.sim);
        let mut infos = vec![];
        for idx in 0..RING_N {
            let p = RING_LO + ((t.start_partition - RING_LO) + idx) % RING_N;
            let lo = t.start_epoch + idx as u64 * RING_EPP;
            for (h, _) in partition_entries(&st.sim, p) {
                match st.ever.get(&h) {
                    Some(e) if lo <= *e && *e < lo + RING_EPP => {}
                    Some(_) => infos.push("stale-record-in-recycled-partition"),
                    None => infos.push("record-of-unknown-intent"),
                }
            }
        }
        infos
    }
}

impl Machine for RingMachine {
    type Op = Op;
    type St = St;

    fn init(&self) -> St {
        let mut sim = sim_from(&self.root);
        let now = current_epoch(&mut sim);
        St { sim, now, committed: BTreeMap::new(), ever: BTreeMap::new(), slots: vec![], commits_used: 0, reuse_used: 0, nonce: 1000 }
    }

    fn fork(&self, st: &St) -> Option<St> {
        Some(St {
            sim: sim_from(&st.sim.create_snapshot()),
            now: st.now,
            committed: st.committed.clone(),
            ever: st.ever.clone(),
            slots: st.slots.clone(),
            commits_used: st.commits_used,
            reuse_used: st.reuse_used,
            nonce: st.nonce,
        })
    }

    fn terminal(&self, st: &St) -> bool {
        if st.slots.is_empty() {
            return false;
        }
        let dead = st.slots.iter().filter(|s| !self.slot_alive(st, s)).count();
        dead == st.slots.len() || (self.prune_when_one_dead && dead > 0)
    }

    fn ops(&self, st: &St, _depth: usize) -> Vec<Op> {
        if st.slots.is_empty() {
            // the phases of the ring are reached by the item prefixes (k × NextEpoch); see run()
            return self.first_commits.clone();
        }
        let mut ops = vec![Op::NextEpoch];
        for (i, s) in st.slots.iter().enumerate() {
            if !self.slot_alive(st, s) {
                continue;
            }
            ops.push(Op::Replay { slot: i as u8, resigned: false });
            ops.push(Op::Replay { slot: i as u8, resigned: true });
            // (only while a root window that overlaps the subintent's window still passes static validation)
            let reusable = s.child.as_ref().map_or(false, |(c, _)| {
                let (rs, re) = reuse_root_window(st.now, c);
                re - rs <= SCALED_RANGE
            });
            if s.v2 && reusable && st.reuse_used < self.max_reuse {
                ops.push(Op::ReuseSub { slot: i as u8, root_fails: false });
                // a transaction that must be rejected never starts executing: its manifest is irrelevant
                let probe = Op::ReuseSub { slot: i as u8, root_fails: true };
                if !self.carried(st, &probe).map_or(false, |c| RingMachine::must_reject(st, &c)) {
                    ops.push(probe);
                }
            }
        }
        if st.commits_used < self.max_commits {
            ops.extend(self.later_commits.iter().cloned());
        }
        ops
    }

    fn step(&self, st: &mut St, op: &Op) -> Result<String, (String, String)> {
        let abs = |off: i8| (st.now as i64 + off as i64) as u64;
        let class = match op {
            Op::NextEpoch => {
                match next_epoch(&mut st.sim) {
                    Ok(_) => {}
                    Err(e) => return Err(("epoch-change-failed".into(), format!("round change at epoch {} : {e}", st.now))),
                }
                st.now += 1;
                if current_epoch(&mut st.sim) != st.now {
                    mc_core::machinery_error("epoch bookkeeping diverged");
                }
                "next-epoch".to_string()
            }
            Op::V1 { s_off, len, fail } => {
                let (s, e) = (abs(*s_off), abs(*s_off) + *len as u64);
                st.nonce += 1;
                let (raw, h) = build_v1(s, e, st.nonce as u32, *fail, false);
                let root = Intent { hash: h.0, start: s, end: e, sub: false };
                let (out, _) = submit(&mut st.sim, &self.validator, &raw);
                let class = self.judge(st, "v1", &[root.clone()], &out)?;
                if !matches!(out, Outcome::Invalid(_)) {
                    st.slots.push(Slot { v2: false, raw, nonce: st.nonce, root_fails: *fail, root, child: None });
                    st.commits_used += 1;
                }
                if let Outcome::Success | Outcome::Failure(_) = out {
                    if (*fail) != matches!(out, Outcome::Failure(_)) {
                        mc_core::machinery_error(&format!("v1 menu transaction fail={fail} ended as {}", out.label()));
                    }
                }
                class
            }
            Op::V2 { r_off, r_len, c_off, c_len, root_fails } => {
                let (rs, re) = (abs(*r_off), abs(*r_off) + *r_len as u64);
                let (cs, ce) = (abs(*c_off), abs(*c_off) + *c_len as u64);
                st.nonce += 2;
                let partial = build_sub(cs, ce, st.nonce - 1);
                let (raw, h) = build_v2(rs, re, st.nonce, &partial, *root_fails, false);
                let root = Intent { hash: h.0, start: rs, end: re, sub: false };
                let child = Intent { hash: partial.root_subintent_hash.0, start: cs, end: ce, sub: true };
                let (out, _) = submit(&mut st.sim, &self.validator, &raw);
                let class = self.judge(st, "v2", &[root.clone(), child.clone()], &out)?;
                if !matches!(out, Outcome::Invalid(_)) {
                    st.slots.push(Slot { v2: true, raw, nonce: st.nonce, root_fails: *root_fails, root, child: Some((child, partial)) });
                    st.commits_used += 1;
                }
                if let Outcome::Success | Outcome::Failure(_) = out {
                    if (*root_fails) != matches!(out, Outcome::Failure(_)) {
                        mc_core::machinery_error(&format!("v2 menu transaction root_fails={root_fails} ended as {}", out.label()));
                    }
                }
                class
            }
            Op::Replay { slot, resigned } => {
                let s = st.slots[*slot as usize].clone();
                let raw = if !*resigned {
                    s.raw.clone()
                } else if s.v2 {
                    let (raw, h) = build_v2(s.root.start, s.root.end, s.nonce, &s.child.as_ref().unwrap().1, s.root_fails, true);
                    if h.0 != s.root.hash || raw == s.raw {
                        mc_core::machinery_error("re-signed v2 transaction does not carry the same intent in a different payload");
                    }
                    raw
                } else {
                    let (raw, h) = build_v1(s.root.start, s.root.end, s.nonce as u32, s.root_fails, true);
                    if h.0 != s.root.hash || raw == s.raw {
                        mc_core::machinery_error("re-signed v1 transaction does not carry the same intent in a different payload");
                    }
                    raw
                };
                let mut carried = vec![s.root.clone()];
                if let Some((c, _)) = &s.child {
                    carried.push(c.clone());
                }
                let (out, _) = submit(&mut st.sim, &self.validator, &raw);
                self.judge(st, if *resigned { "resubmit-resigned" } else { "resubmit-identical" }, &carried, &out)?
            }
            Op::ReuseSub { slot, root_fails } => {
                let s = st.slots[*slot as usize].clone();
                let (child, partial) = s.child.clone().expect("ReuseSub on a v2 slot");
                st.nonce += 1;
                let (rs, re) = reuse_root_window(st.now, &child);
                let (raw, h) = build_v2(rs, re, st.nonce, &partial, *root_fails, false);
                let root = Intent { hash: h.0, start: rs, end: re, sub: false };
                let (out, _) = submit(&mut st.sim, &self.validator, &raw);
                let class = self.judge(st, "subintent-in-new-transaction", &[root, child], &out)?;
                if out.committed() {
                    st.reuse_used += 1;
                }
                class
            }
        };
        Ok(class)
    }

    /// Canonical form of what the property observes, relative to the current epoch (the engine's replay
    /// logic depends on epochs only through `epoch − start_epoch`, `expiry − epoch` and the absolute
    /// partition numbers, so histories that differ by a time shift of whole ring revolutions have the same
    /// futures; transaction hashes differ between histories and are not observed):
    /// real ring origin (start partition, epoch − start_epoch); per stored transaction its kind, windows
    /// relative to now, what the model holds as committed, and in which real partition (relative to the ring
    /// origin) a record is readable; the remaining budgets.
    fn fingerprint(&self, st: &St) -> Vec<u8> {
        let t = read_tracker(&st.sim);
        let mut s = format!("sp{};off{};c{};u{};", t.start_partition, st.now as i64 - t.start_epoch as i64, st.commits_used, st.reuse_used);
        let parts: Vec<BTreeMap<Hash, String>> = (0..RING_N).map(|i| partition_entries(&st.sim, RING_LO + i)).collect();
        let rel = |x: u64| (x as i64 - st.now as i64).max(-3);
        for slot in &st.slots {
            if !self.slot_alive(st, slot) {
                s.push_str("dead;");
                continue;
            }
            let one = |i: &Intent| -> String {
                let place: Vec<String> = (0..RING_N as usize).filter(|p| parts[*p].contains_key(&i.hash)).map(|p| format!("{}={}", p, parts[p][&i.hash])).collect();
                format!("[{},{},{},{}]", rel(i.start).min(1), rel(i.end), b(st.committed.contains_key(&i.hash)), place.join(","))
            };
            s.push_str(if slot.v2 { "v2" } else { "v1" });
            s.push_str(b(slot.root_fails));
            s.push_str(&one(&slot.root));
            if let Some((c, _)) = &slot.child {
                s.push_str(&one(c));
            }
            s.push(';');
        }
        s.into_bytes()
    }
}

/// The info-level ring scan is done on every *new* state by wrapping the machine's step.
struct Scanning<'a>(&'a RingMachine, std::sync::Mutex<BTreeMap<&'static str, u64>>);

impl<'a> Machine for Scanning<'a> {
    type Op = Op;
    type St = St;
    fn init(&self) -> St {
        self.0.init()
    }
    fn fork(&self, st: &St) -> Option<St> {
        self.0.fork(st)
    }
    fn terminal(&self, st: &St) -> bool {
        self.0.terminal(st)
    }
    fn ops(&self, st: &St, d: usize) -> Vec<Op> {
        self.0.ops(st, d)
    }
    fn fingerprint(&self, st: &St) -> Vec<u8> {
        self.0.fingerprint(st)
    }
    fn step(&self, st: &mut St, op: &Op) -> Result<String, (String, String)> {
        let class = self.0.step(st, op)?;
        if !(matches!(op, Op::NextEpoch) || class.contains(":commit-")) {
            return Ok(class);
        }
        let infos = self.0.scan_ring(st);
        if !infos.is_empty() {
            let mut g = self.1.lock().unwrap();
            for i in infos {
                *g.entry(i).or_insert(0) += 1;
            }
        }
        Ok(class)
    }
}

impl<'a> crate::explore::InPlace for Scanning<'a> {
    /// Resubmissions that the reference model says must be rejected cannot change the ledger unless the
    /// property is violated, so they run on the parent state without a fork.
    fn in_place(&self, st: &St, op: &Op) -> bool {
        match self.0.carried(st, op) {
            Some(c) => RingMachine::must_reject(st, &c),
            None => false,
        }
    }
}

fn layer2(ctx: &Ctx) -> (BfsStats, Value) {
    let m = RingMachine::new(ctx.quick());
    let scanning = Scanning(&m, std::sync::Mutex::new(BTreeMap::new()));
    // item prefixes: k real epoch changes from the rewritten root; k = 0..7 are the 8 phases of the ring
    // (4 start partitions × 2 epochs), k = 8 (thorough) is phase 0 again after a full revolution, so every
    // explored history runs on a ring that has really rotated k/2 times before the first commit and keeps
    // rotating for up to ~16 more epochs.
    let k_max = ctx.pick(7usize, 8);
    let mut items: Vec<Item<Scanning>> = vec![];
    let mut st = m.init();
    let mut prefix: Vec<Op> = vec![];
    let mut phases = vec![];
    let mut l = Local::new();
    for k in 0..=k_max {
        if k > 0 {
            match m.step(&mut st, &Op::NextEpoch) {
                Ok(c) => l.class(&c),
                Err((key, what)) => {
                    l.violation(key, what, json!({"layer": 2, "base": "scaled-ring", "history": prefix.iter().map(op_code).collect::<Vec<_>>()}));
                    break;
                }
            }
            prefix.push(Op::NextEpoch);
        }
        let t = read_tracker(&st.sim);
        phases.push(json!({"k": k, "start_partition": t.start_partition, "epoch_minus_start_epoch": st.now as i64 - t.start_epoch as i64}));
        items.push(Item { tag: format!("scaled-ring(4x2,max_epoch_range=6)+{k}-epochs"), prefix: prefix.clone(), start: m.fork(&st).unwrap() });
    }
    ctx.merge(l);
    // one item per (phase, first commit) so that the parallel work is balanced: expand the first layer here
    let mut fine: Vec<Item<Scanning>> = vec![];
    let mut l = Local::new();
    let mut first_layer = BfsStats::default();
    first_layer.states = items.len() as u64;
    for it in items {
        for op in m.first_commits.iter() {
            let mut child = m.fork(&it.start).unwrap();
            first_layer.transitions += 1;
            l.evals += 1;
            let mut hist = it.prefix.clone();
            hist.push(op.clone());
            match scanning.step(&mut child, op) {
                Ok(c) => {
                    l.class(&c);
                    if !child.slots.is_empty() {
                        first_layer.states += 1;
                        fine.push(Item { tag: it.tag.clone(), prefix: hist, start: child });
                    }
                }
                Err((key, what)) => l.violation(key, what, json!({"layer": 2, "base": it.tag, "history": hist.iter().map(op_code).collect::<Vec<_>>()})),
            }
        }
    }
    ctx.merge(l);
    let n_items = fine.len();
    // wall cap of the exploration (MC_CAP_S overrides it for development runs on a loaded machine)
    let cap = std::env::var("MC_CAP_S").ok().and_then(|s| s.parse().ok()).unwrap_or(ctx.pick(50.0, 1150.0));
    let mut stats = explore_all(ctx, &scanning, fine, &op_code, cap);
    // explore_item counts each item's start state; they were counted in first_layer already
    stats.states = stats.states - n_items as u64 + first_layer.states;
    stats.transitions += first_layer.transitions + k_max as u64;
    for (k, v) in scanning.1.lock().unwrap().iter() {
        ctx.info(k, *v);
    }
    let detail = json!({
        "ring": {"partitions": RING_N, "epochs_per_partition": RING_EPP, "max_epoch_range": SCALED_RANGE},
        "phases": phases,
        "first_commit_alphabet": m.first_commits.iter().map(op_code).collect::<Vec<_>>(),
        "later_commit_alphabet": m.later_commits.iter().map(op_code).collect::<Vec<_>>(),
        "max_commits": m.max_commits, "max_subintent_reuse_commits": m.max_reuse, "replays_after_expiry_epochs": m.post_expiry,
        "stop_when_one_of_two_transactions_is_past_its_window": m.prune_when_one_dead,
        "work_items": n_items,
    });
    (stats, detail)
}

// ================================================================================================
// Layer 3 — production-size ring on the real engine, long boundary schedules (thorough)
// ================================================================================================

struct Live {
    what: &'static str,
    commit_epoch: u64,
    end: u64,
    exe: Option<ExecutableTransaction>,
    partial: Option<DetailedSignedPartialTransactionV2>,
}

struct Scenario {
    name: &'static str,
    start_partition: Option<u8>,
    rotations: Vec<u64>,
}

fn layer3_run(sc: &Scenario) -> (Local, u64, u64) {
    let mut l = Local::new();
    let mut sim = new_sim();
    let validator = *sim.transaction_validator();
    let max_range = validator.config().max_epoch_range;
    let mut t = read_tracker(&sim);
    if let Some(sp) = sc.start_partition {
        t.start_partition = sp;
        write_tracker(&mut sim, t.clone());
    }
    let (s0, epp) = (t.start_epoch, t.epochs_per_partition);
    let mut now = current_epoch(&mut sim);
    let commit_epochs: BTreeSet<u64> = sc.rotations.iter().flat_map(|r| [s0 + r * epp - 2, s0 + r * epp - 1, s0 + r * epp]).filter(|e| *e >= now).collect();
    let end_epoch = commit_epochs.iter().max().unwrap() + max_range + 2;
    let mut live: Vec<Live> = vec![];
    let mut nonce = 50_000u64;
    let mut txs = 0u64;
    let mut epochs = 0u64;
    let case = |now: u64, what: &str, c: u64, e: u64| json!({"layer": 3, "scenario": sc.name, "epoch": now, "what": what, "committed_at": c, "expiry": e});
    loop {
        // commits
        if commit_epochs.contains(&now) {
            let nb = s0 + ((now - s0) / epp + 1) * epp;
            let fb = s0 + ((now + max_range - s0) / epp) * epp;
            let mut ends: BTreeSet<u64> = [now + 1, now + 2, nb - 1, nb, nb + 1, nb + epp - 1, nb + epp, nb + epp + 1, fb - 1, fb, fb + 1, now + max_range - 1, now + max_range].into_iter().collect();
            ends.retain(|e| *e > now && *e <= now + max_range);
            for e in ends {
                let special = e == nb || e == fb || e == now + max_range;
                let mut kinds: Vec<&'static str> = vec!["v1-success"];
                if special {
                    kinds.extend(["v1-failure", "v2-success", "v2-root-failure"]);
                }
                for kind in kinds {
                    nonce += 2;
                    let (raw, partial) = match kind {
                        "v1-success" => (build_v1(now, e, nonce as u32, false, false).0, None),
                        "v1-failure" => (build_v1(now, e, nonce as u32, true, false).0, None),
                        _ => {
                            let p = build_sub(now, e, nonce - 1);
                            (build_v2(now, now + 1, nonce, &p, kind == "v2-root-failure", false).0, Some(p))
                        }
                    };
                    let exe = match raw.validate(&validator) {
                        Ok(v) => v.create_executable(),
                        Err(err) => mc_core::machinery_error(&format!("layer 3 transaction invalid: {err:?}")),
                    };
                    let (out, _) = submit_executable(&mut sim, exe.clone());
                    txs += 1;
                    l.eval();
                    match &out {
                        Outcome::Panicked(p) => {
                            l.violation(format!("panic:{}", p.rsplit(" @ ").next().unwrap_or("?")), format!("{kind} with expiry {e} at epoch {now} crashed the engine: {p}"), case(now, kind, now, e));
                            continue;
                        }
                        o if !o.committed() => {
                            l.info("layer3-fresh-intent-not-committed");
                            continue;
                        }
                        _ => {}
                    }
                    l.class(&format!("prod-ring:{kind}:{}", if out == Outcome::Success { "commit-success" } else { "commit-failure" }));
                    match kind {
                        "v1-success" | "v1-failure" => live.push(Live { what: kind, commit_epoch: now, end: e, exe: Some(exe), partial: None }),
                        "v2-success" => live.push(Live { what: "subintent-of-successful-parent", commit_epoch: now, end: e, exe: None, partial }),
                        _ => {
                            // the child of a failed parent is not consumed: a new parent may commit it now
                            nonce += 1;
                            let p = partial.unwrap();
                            let raw = build_v2(now, now + 1, nonce, &p, false, false).0;
                            let (out2, _) = submit(&mut sim, &validator, &raw);
                            txs += 1;
                            if out2 == Outcome::Success {
                                l.class("prod-ring:subintent-after-failed-parent:commit-success");
                                live.push(Live { what: "subintent-committed-after-failed-parent", commit_epoch: now, end: e, exe: None, partial: Some(p) });
                            } else if let Outcome::Panicked(pn) = &out2 {
                                l.violation(format!("panic:{}", pn.rsplit(" @ ").next().unwrap_or("?")), format!("reuse of an unconsumed subintent crashed the engine: {pn}"), case(now, kind, now, e));
                            } else {
                                l.info("layer3-unconsumed-subintent-not-committed");
                            }
                        }
                    }
                }
            }
        }
        // replays: right after the commit, around every rotation of the ring, and around the expiry
        let phase = (now - s0) % epp;
        let near_rotation = phase == epp - 1 || phase == 0 || phase == 1;
        live.retain(|x| now <= x.end);
        for x in live.iter() {
            if !(near_rotation || now <= x.commit_epoch + 1 || now + 1 >= x.end) {
                continue;
            }
            let (out, _) = match (&x.exe, &x.partial) {
                (Some(exe), _) => submit_executable(&mut sim, exe.clone()),
                (None, Some(p)) => {
                    nonce += 1;
                    // the new root's window contains `now` and overlaps the subintent's window, so that static
                    // validation passes and the engine decides (also at the expiry epoch itself)
                    let raw = build_v2(now.min(x.end - 1), now + 1, nonce, p, false, false).0;
                    submit(&mut sim, &validator, &raw)
                }
                _ => unreachable!(),
            };
            txs += 1;
            l.eval();
            match out {
                Outcome::Rejected(r) => l.class(&format!("prod-ring:replay:reject:{r}")),
                Outcome::Invalid(e) => mc_core::machinery_error(&format!("layer 3 replay transaction failed static validation: {e}")),
                Outcome::Panicked(p) => l.violation(
                    format!("panic:{}", p.rsplit(" @ ").next().unwrap_or("?")),
                    format!("replay of {} (committed at {}, expiry {}) at epoch {now} crashed the engine: {p}", x.what, x.commit_epoch, x.end),
                    case(now, x.what, x.commit_epoch, x.end),
                ),
                o => l.violation(
                    format!("replay-accepted:{}", if x.partial.is_some() { "subintent" } else { "transaction-intent" }),
                    format!("production ring ({}): {} committed at epoch {} with expiry {} was accepted again at epoch {now}: {}", sc.name, x.what, x.commit_epoch, x.end, o.label()),
                    case(now, x.what, x.commit_epoch, x.end),
                ),
            }
        }
        if now >= end_epoch || (live.is_empty() && commit_epochs.iter().all(|c| *c < now)) {
            break;
        }
        if let Err(e) = next_epoch(&mut sim) {
            l.violation("epoch-change-failed", format!("production ring ({}), epoch {now}: {e}", sc.name), case(now, "next-epoch", 0, 0));
            break;
        }
        now += 1;
        epochs += 1;
        txs += 1;
    }
    // the ring really went round
    let t_end = read_tracker(&sim);
    l.class(&format!("prod-ring:{}:rotations-performed>={}", sc.name, ((t_end.start_epoch - s0) / epp).min(190) / 10 * 10));
    (l, txs, epochs)
}

fn layer3(ctx: &Ctx) -> Value {
    let scenarios = vec![
        Scenario { name: "unmodified-first-rotations", start_partition: None, rotations: vec![1, 2, 3] },
        Scenario { name: "unmodified-rotations-190-192", start_partition: None, rotations: vec![190, 191, 192] },
        Scenario { name: "start-partition-170(number-wrap-in-first-window)", start_partition: Some(170), rotations: vec![1, 2] },
        Scenario { name: "start-partition-254", start_partition: Some(254), rotations: vec![1, 2, 3] },
        Scenario { name: "start-partition-255", start_partition: Some(255), rotations: vec![1, 2] },
    ];
    let results = mc_core::par_map(ctx.threads, &scenarios, |sc| layer3_run(sc));
    let mut out = vec![];
    for (sc, (l, txs, epochs)) in scenarios.iter().zip(results) {
        out.push(json!({"scenario": sc.name, "start_partition_override": sc.start_partition, "commit_rotations": sc.rotations, "transactions": txs, "epoch_changes": epochs}));
        ctx.merge(l);
    }
    Value::Array(out)
}

// ================================================================================================

fn replay(ctx: Ctx) -> ! {
    let case = ctx.read_replay_case().unwrap();
    let layer = case.get("layer").and_then(|x| x.as_u64()).unwrap_or(2);
    let mut l = Local::new();
    match layer {
        1 => {
            let g = |k: &str| case.get(k).and_then(|x| x.as_u64()).unwrap_or(0);
            let p = RingParams { lo: g("lo") as u8, hi: g("hi") as u8, epp: g("epp") };
            layer1_case(p, g("start_partition") as u8, g("start_epoch"), g("advances"), p.epp + 250, &mut l);
        }
        3 => {
            println!("layer 3 cases are re-run by `./check C07 thorough` (scenario {:?})", case.get("scenario"));
        }
        _ => {
            let m = RingMachine::new(false);
            let mut st = m.init();
            let hist: Vec<Op> = case
                .get("history")
                .and_then(|h| h.as_array())
                .map(|a| a.iter().filter_map(|x| x.as_str().and_then(op_parse)).collect())
                .unwrap_or_default();
            for op in &hist {
                let t = read_tracker(&st.sim);
                print!("epoch {} ring(start_epoch {}, start_partition {})  {:<14} -> ", st.now, t.start_epoch, t.start_partition, op_code(op));
                match m.step(&mut st, op) {
                    Ok(c) => println!("{c}"),
                    Err((k, w)) => {
                        println!("VIOLATION {k}: {w}");
                        l.violation(k, w, case.clone());
                        break;
                    }
                }
            }
        }
    }
    for v in &l.violations {
        println!("reproduced: {} :: {}", v.key, v.what);
    }
    ctx.merge(l);
    ctx.finish(Level::ModelChecking, "replay", 0, false, Map::new(), &[])
}


pub fn run(ctx: Ctx) -> ! {
    if ctx.replay.is_some() {
        replay(ctx);
    }
    let (l1_evals, l1_detail) = layer1(&ctx);
    let t1 = ctx.elapsed_s();
    let (stats, l2_detail) = layer2(&ctx);
    let t2 = ctx.elapsed_s();
    let l3_detail = if ctx.quick() { json!("thorough tier only") } else { layer3(&ctx) };
    let t3 = ctx.elapsed_s();
    let mut cov = stats.coverage();
    cov.insert("layer1_ring_arithmetic".into(), l1_detail);
    cov.insert("layer2_scaled_ring".into(), l2_detail);
    cov.insert("layer3_production_ring_histories".into(), l3_detail);
    cov.insert("wall_s_by_layer".into(), json!([t1, t2 - t1, t3 - t2]));
    let _ = l1_evals;
    let exhaustive = !stats.capped;
    let quick_tier = ctx.quick();
    ctx.finish(
        Level::ModelChecking,
        "layer 1: every (start partition, number of advances ≤ 1–2 revolutions, expiry offset in and ±250 around the covered range) on the real tracker methods with production constants, plus all small rings (N ≤ 5, epochs/partition ≤ 3); \
         layer 2: depth-first to fixpoint over all histories = k ≤ 7–8 real epoch changes, a first commit from the full alphabet, then any interleaving of epoch changes, ≤ 1 further commit, ≤ 2 committing subintent re-uses, and in every state all replays (identical / re-signed / subintent in a new transaction) of every stored transaction, until every stored intent is past its expiry; every transition is executed on the real engine; \
         states are de-duplicated by a time-shift-invariant fingerprint of the real ring + model; a state is non-trivial when its fingerprint is new; layer 3 (thorough): fixed long boundary schedules on the production-size ring",
        stats.states,
        exhaustive,
        cov,
        &[
            if quick_tier { "quick tier: a history stops once one of two stored transactions is past its replay window (subsumed by the single-transaction histories if records of expired intents do not influence other intents); the thorough tier explores those tails" } else { "thorough tier: no subsumption reduction" },
            "layer 2 runs on a test database whose tracker substate was rewritten to a 4 x 2 ring and validates with max_epoch_range = 6; the engine code is unmodified",
            "epochs advance by one per round-change transaction (C44), so the ring is never more than one block behind",
            "panics escaping the engine while processing a validated transaction or an epoch change are reported as violations (the operation is defined and must end in a commit or a rejection)",
            "storage hygiene (stale records in recycled partitions) is informational: the statement does not mention it",
        ],
    )
}
