//! C49 — execution limits are enforced exactly.
//!
//! A native probe blueprint (`LimProbe`, published through the repo's own `OverridePackageCode` mechanism; one
//! global instance `H` with one field and one key-value collection) interprets a script `Vec<Op>`; every op is one
//! *family* parameterised by n and aimed at one limit of `SystemOverrides.limit_parameters`:
//!
//! | family      | what the probe does                                             | limit                        |
//! |-------------|-----------------------------------------------------------------|------------------------------|
//! | Depth(n)    | n nested `LimProbe::recurse` calls below `H.run` (depth 1 + n)  | max_call_depth               |
//! | Key(n)      | opens a KV entry of `H` whose SBOR key is n bytes long          | max_substate_key_size        |
//! | Val(n)      | writes an n-byte SBOR payload into a KV entry of `H`            | max_substate_value_size      |
//! | Invoke(n)   | calls `LimProbe::noop` with an invocation of n bytes            | max_invoke_input_size        |
//! | Event(n)    | emits one event with an n-byte payload                          | max_event_size               |
//! | Log(n)      | emits one log message of n bytes                                | max_log_size                 |
//! | Panic(n)    | `panic` with an n-byte message                                  | max_panic_message_size       |
//! | Events(n)   | emits n (6-byte) events                                         | max_number_of_events         |
//! | Logs(n)     | emits n empty log messages                                      | max_number_of_logs           |
//! | Heap(n)     | creates an owned object with an n-byte field and drops it       | max_heap_substate_total_bytes (differential) |
//! | Track(n)    | = Val(n) (the entry of the global `H` lives in the track)       | max_track_substate_total_bytes (differential) |
//!
//! Enumerated: every family × every limit value of its list × every n in the window around the limit, and every
//! ordered pair of two different families with both limits small and both n ∈ {ℓ, ℓ+1}. The reference model
//! (`model`) is a 60-line interpreter of the script that knows only the limit table and the sizes the *harness*
//! constructs; it never looks at engine state. Oracle: the receipt is a success iff the model says no op exceeds,
//! otherwise it is a committed failure whose error is exactly the `TransactionLimitsError` variant of the first
//! exceeding op (a set of variants where one op exceeds two limits at once and the statement does not fix the order).
//! In addition every committed receipt is scanned: number and sizes of events and logs and the key and value sizes of
//! all written substates never exceed the configured limits ("no committed transaction exceeds …").
//!
//! Heap and track totals have implementation-defined accounting ⇒ differential single-threshold oracle (DESIGN):
//! bisection finds the minimal limit T at which a fixed script succeeds; then success ⇔ limit ≥ T is required on the
//! whole window [T-3, T+3], failures in the window must carry exactly that limit's error, and
//! T(script with one more byte) = T + 1.
use mc_core::{par_for, Ctx, Level, Local};
use mc_ledger::*;
use radix_engine::errors::{ApplicationError, RuntimeError, SystemModuleError};
use radix_engine::kernel::kernel_api::{KernelNodeApi, KernelSubstateApi};
use radix_engine::system::system_callback::SystemLockData;
use radix_engine::system::system_modules::limits::TransactionLimitsError;
use radix_engine::transaction::LimitParameters;
use radix_engine::vm::{OverridePackageCode, VmApi, VmInvoke};
use radix_engine_interface::api::{AttachedModuleId, FieldValue, LockFlags, SystemApi, ACTOR_STATE_SELF};
use radix_blueprint_schema_init::*;
use sbor::basic_well_known_types::ANY_TYPE;
use radix_native_sdk::modules::metadata::Metadata;
use radix_native_sdk::modules::role_assignment::RoleAssignment;
use serde_json::{json, Map, Value};
use std::collections::BTreeSet;

const CODE_ID: u64 = 4949;
const BP: &str = "LimProbe";
const F_RUN: &str = "run";
const F_RECURSE: &str = "recurse";
const F_NOOP: &str = "noop";
const F_NEW: &str = "new";
const EVENT: &str = "Ev";

#[derive(ScryptoSbor, ManifestSbor, Clone, Copy, Debug, PartialEq, Eq, PartialOrd, Ord)]
pub enum Op {
    Depth(u32),
    Key(u32),
    Val(u32),
    Invoke(u32),
    Event(u32),
    Log(u32),
    Panic(u32),
    Events(u32),
    Logs(u32),
    Heap(u32),
}

// ------------------------------------------------------------------------------------------------
// size-exact SBOR builders (harness side; shared by the probe and the model)
// ------------------------------------------------------------------------------------------------

fn leb_len(k: usize) -> usize {
    let mut n = 1;
    let mut k = k >> 7;
    while k != 0 {
        n += 1;
        k >>= 7;
    }
    n
}

/// Scrypto-SBOR payload `Vec<u8>` whose *total* encoded length is exactly `n` (prefix 0x5c, kind 0x20, element
/// kind 0x07, LEB128 length, bytes). None when no such payload exists (n < 4, or n falls in a LEB128 gap).
pub fn bytes_payload(n: usize) -> Option<Vec<u8>> {
    for l in 1..=4usize {
        if n < 3 + l {
            continue;
        }
        let k = n - 3 - l;
        if leb_len(k) == l {
            let v = scrypto_encode(&vec![0xABu8; k]).unwrap();
            assert_eq!(v.len(), n);
            return Some(v);
        }
    }
    None
}

/// Scrypto-SBOR payload of a tuple `(Vec<u8>,)` with total length n (the argument tuple of `noop`).
pub fn args_payload(n: usize) -> Option<Vec<u8>> {
    // 0x5c 0x21 0x01 | 0x20 0x07 leb(k) bytes
    for l in 1..=4usize {
        if n < 5 + l {
            continue;
        }
        let k = n - 5 - l;
        if leb_len(k) == l {
            let v = scrypto_encode(&(vec![0xCDu8; k],)).unwrap();
            assert_eq!(v.len(), n);
            return Some(v);
        }
    }
    None
}

/// bytes by which the identification of the callee adds to an invocation (`KernelInvocation::len` = actor
/// identification + SBOR arguments; for a function actor: package address + blueprint name + function name)
fn callee_len(func: &str) -> usize {
    NodeId::LENGTH + BP.len() + func.len()
}
fn method_callee_len(method: &str) -> usize {
    NodeId::LENGTH + method.len()
}

fn recurse_args(k: u32) -> Vec<u8> {
    scrypto_encode(&(k,)).unwrap()
}

// ------------------------------------------------------------------------------------------------
// the probe
// ------------------------------------------------------------------------------------------------

#[derive(Clone)]
pub struct LimProbe;

/// the probe's only event type (the package validator wants a struct named like the event)
#[derive(ScryptoSbor, Clone, Debug)]
pub struct Ev {
    pub data: Vec<u8>,
}
/// encoded size of the smallest event `Ev { data: [] }`
const SMALL_EVENT: usize = 6;

fn app_err(msg: &str) -> RuntimeError {
    // a harness-side problem surfaced as a recognisable application error (never expected; machinery error if seen)
    RuntimeError::ApplicationError(ApplicationError::PanicMessage(format!("LIMPROBE-HARNESS-ERROR: {msg}")))
}

impl VmInvoke for LimProbe {
    fn invoke<Y: SystemApi<RuntimeError> + KernelNodeApi + KernelSubstateApi<SystemLockData>, V: VmApi>(
        &mut self,
        export_name: &str,
        input: &IndexedScryptoValue,
        api: &mut Y,
        _vm_api: &V,
    ) -> Result<IndexedScryptoValue, RuntimeError> {
        let dec = |e| RuntimeError::ApplicationError(ApplicationError::InputDecodeError(e));
        match export_name {
            F_NEW => {
                let metadata = Metadata::create(api)?;
                let access_rules = RoleAssignment::create(OwnerRole::None, indexmap!(), api)?;
                let node_id = api.new_simple_object(BP, indexmap!(0u8 => FieldValue::new(())))?;
                let addr = api.globalize(
                    node_id,
                    indexmap!(
                        AttachedModuleId::Metadata => metadata.0,
                        AttachedModuleId::RoleAssignment => access_rules.0.0,
                    ),
                    None,
                )?;
                Ok(IndexedScryptoValue::from_typed(&addr))
            }
            F_NOOP => Ok(IndexedScryptoValue::from_typed(&())),
            F_RECURSE => {
                let (k,): (u32,) = input.as_typed().map_err(dec)?;
                if k > 0 {
                    let pkg = api.actor_get_blueprint_id()?.package_address;
                    api.call_function(pkg, BP, F_RECURSE, recurse_args(k - 1))?;
                }
                Ok(IndexedScryptoValue::from_typed(&()))
            }
            F_RUN => {
                let (ops,): (Vec<Op>,) = input.as_typed().map_err(dec)?;
                let pkg = api.actor_get_blueprint_id()?.package_address;
                for op in ops {
                    match op {
                        Op::Depth(n) => {
                            if n > 0 {
                                api.call_function(pkg, BP, F_RECURSE, recurse_args(n - 1))?;
                            }
                        }
                        Op::Key(n) => {
                            let key = bytes_payload(n as usize).ok_or_else(|| app_err("key length not constructible"))?;
                            let h = api.actor_open_key_value_entry(ACTOR_STATE_SELF, 0u8, &key, LockFlags::read_only())?;
                            api.key_value_entry_close(h)?;
                        }
                        Op::Val(n) => {
                            let val = bytes_payload(n as usize).ok_or_else(|| app_err("value length not constructible"))?;
                            let key = scrypto_encode(&0u8).unwrap();
                            let h = api.actor_open_key_value_entry(ACTOR_STATE_SELF, 0u8, &key, LockFlags::MUTABLE)?;
                            api.key_value_entry_set(h, val)?;
                            api.key_value_entry_close(h)?;
                        }
                        Op::Invoke(n) => {
                            let a = (n as usize).checked_sub(callee_len(F_NOOP)).ok_or_else(|| app_err("invoke size below callee size"))?;
                            let args = args_payload(a).ok_or_else(|| app_err("argument length not constructible"))?;
                            api.call_function(pkg, BP, F_NOOP, args)?;
                        }
                        Op::Event(n) => {
                            // `Ev { data }` encodes exactly like the 1-tuple `(Vec<u8>,)`
                            let p = args_payload(n as usize).ok_or_else(|| app_err("event length not constructible"))?;
                            api.actor_emit_event(EVENT.to_string(), p, EventFlags::empty())?;
                        }
                        Op::Log(n) => {
                            api.emit_log(radix_engine_interface::types::Level::Info, "l".repeat(n as usize))?;
                        }
                        Op::Panic(n) => {
                            api.panic("p".repeat(n as usize))?;
                        }
                        Op::Events(n) => {
                            for _ in 0..n {
                                api.actor_emit_event(EVENT.to_string(), scrypto_encode(&Ev { data: vec![] }).unwrap(), EventFlags::empty())?;
                            }
                        }
                        Op::Logs(n) => {
                            for _ in 0..n {
                                api.emit_log(radix_engine_interface::types::Level::Info, String::new())?;
                            }
                        }
                        Op::Heap(n) => {
                            let p = bytes_payload(n as usize).ok_or_else(|| app_err("heap payload length not constructible"))?;
                            let v: ScryptoValue = scrypto_decode(&p).unwrap();
                            let node = api.new_simple_object(BP, indexmap!(0u8 => FieldValue::new(v)))?;
                            api.drop_object(&node)?;
                        }
                    }
                }
                Ok(IndexedScryptoValue::from_typed(&()))
            }
            _ => Err(app_err("unknown export")),
        }
    }
}

type PExt = OverridePackageCode<LimProbe>;
type PSim = Sim<PExt>;

fn definition() -> PackageDefinition {
    let any = || TypeRef::Static(LocalTypeId::WellKnown(ANY_TYPE));
    let f = |name: &str, receiver: bool| {
        (
            name.to_string(),
            FunctionSchemaInit {
                receiver: if receiver { Some(ReceiverInfo::normal_ref_mut()) } else { None },
                input: any(),
                output: any(),
                export: name.to_string(),
            },
        )
    };
    let (ev_type, schema) = sbor::generate_full_schema_from_single_type::<Ev, ScryptoCustomSchema>();
    assert_eq!(scrypto_encode(&Ev { data: vec![] }).unwrap().len(), SMALL_EVENT);
    let mut blueprints = index_map_new();
    blueprints.insert(
        BP.to_string(),
        BlueprintDefinitionInit {
            schema: BlueprintSchemaInit {
                schema,
                state: BlueprintStateSchemaInit {
                    fields: vec![FieldSchema::static_field(LocalTypeId::WellKnown(ANY_TYPE))],
                    collections: vec![BlueprintCollectionSchema::KeyValueStore(BlueprintKeyValueSchema { key: any(), value: any(), allow_ownership: false })],
                },
                events: BlueprintEventSchemaInit { event_schema: indexmap!(EVENT.to_string() => TypeRef::Static(ev_type)) },
                functions: BlueprintFunctionsSchemaInit {
                    functions: vec![f(F_NEW, false), f(F_NOOP, false), f(F_RECURSE, false), f(F_RUN, true)].into_iter().collect(),
                },
                ..Default::default()
            },
            ..Default::default()
        },
    );
    PackageDefinition { blueprints }
}

fn sim_from(snap: &Snap) -> PSim {
    LedgerSimulatorBuilder::new()
        .with_custom_extension(OverridePackageCode::new(CODE_ID, LimProbe))
        .without_kernel_trace()
        .without_receipt_substate_check()
        .build_from_snapshot(snap.clone())
}

struct Base {
    snap: Snap,
    holder: ComponentAddress,
}

fn build_base() -> Base {
    let mut sim: PSim = LedgerSimulatorBuilder::new()
        .with_custom_extension(OverridePackageCode::new(CODE_ID, LimProbe))
        .without_kernel_trace()
        .without_receipt_substate_check()
        .build();
    let pkg = sim.publish_native_package(CODE_ID, definition());
    let r = sim.execute_manifest(ManifestBuilder::new().lock_fee_from_faucet().call_function(pkg, BP, F_NEW, manifest_args!()).build(), vec![]);
    let holder = r.expect_commit_success().new_component_addresses()[0];
    Base { snap: sim.create_snapshot(), holder }
}

// ------------------------------------------------------------------------------------------------
// limits and the reference model
// ------------------------------------------------------------------------------------------------

#[derive(Clone, Copy, Debug, PartialEq, Eq, PartialOrd, Ord, Hash)]
pub enum Lim {
    Depth,
    Key,
    Val,
    Invoke,
    Event,
    Log,
    Panic,
    Events,
    Logs,
    Heap,
    Track,
}

fn lim_name(l: Lim) -> &'static str {
    match l {
        Lim::Depth => "max_call_depth",
        Lim::Key => "max_substate_key_size",
        Lim::Val => "max_substate_value_size",
        Lim::Invoke => "max_invoke_input_size",
        Lim::Event => "max_event_size",
        Lim::Log => "max_log_size",
        Lim::Panic => "max_panic_message_size",
        Lim::Events => "max_number_of_events",
        Lim::Logs => "max_number_of_logs",
        Lim::Heap => "max_heap_substate_total_bytes",
        Lim::Track => "max_track_substate_total_bytes",
    }
}

fn set_lim(p: &mut LimitParameters, l: Lim, v: usize) {
    match l {
        Lim::Depth => p.max_call_depth = v,
        Lim::Key => p.max_substate_key_size = v,
        Lim::Val => p.max_substate_value_size = v,
        Lim::Invoke => p.max_invoke_input_size = v,
        Lim::Event => p.max_event_size = v,
        Lim::Log => p.max_log_size = v,
        Lim::Panic => p.max_panic_message_size = v,
        Lim::Events => p.max_number_of_events = v,
        Lim::Logs => p.max_number_of_logs = v,
        Lim::Heap => p.max_heap_substate_total_bytes = v,
        Lim::Track => p.max_track_substate_total_bytes = v,
    }
}

fn limits_json(p: &LimitParameters) -> Value {
    json!({
        "max_call_depth": p.max_call_depth, "max_substate_key_size": p.max_substate_key_size,
        "max_substate_value_size": p.max_substate_value_size, "max_invoke_input_size": p.max_invoke_input_size,
        "max_event_size": p.max_event_size, "max_log_size": p.max_log_size, "max_panic_message_size": p.max_panic_message_size,
        "max_number_of_events": p.max_number_of_events, "max_number_of_logs": p.max_number_of_logs,
        "max_heap_substate_total_bytes": p.max_heap_substate_total_bytes, "max_track_substate_total_bytes": p.max_track_substate_total_bytes,
    })
}

fn limits_from_json(v: &Value) -> LimitParameters {
    let g = |k: &str| v.get(k).and_then(|x| x.as_u64()).unwrap_or(0) as usize;
    LimitParameters {
        max_call_depth: g("max_call_depth"),
        max_heap_substate_total_bytes: g("max_heap_substate_total_bytes"),
        max_track_substate_total_bytes: g("max_track_substate_total_bytes"),
        max_substate_key_size: g("max_substate_key_size"),
        max_substate_value_size: g("max_substate_value_size"),
        max_invoke_input_size: g("max_invoke_input_size"),
        max_event_size: g("max_event_size"),
        max_log_size: g("max_log_size"),
        max_panic_message_size: g("max_panic_message_size"),
        max_number_of_logs: g("max_number_of_logs"),
        max_number_of_events: g("max_number_of_events"),
    }
}

/// Harness-side facts about the fixed parts of a probe transaction, measured once under the default limits
/// from the *receipt / database* (never from the limits module) and asserted constant.
#[derive(Clone, Debug)]
struct Calib {
    /// stored size of the KV entry substate minus the size of the payload written by Val(n)
    val_overhead: usize,
    /// invocation size of `H.run(ops)` excluding the SBOR arguments
    run_callee: usize,
    /// invocation size of the transaction processor for the empty script (found by bisection over the invoke limit)
    proc_base: usize,
}

/// depth of the frame of `H.run` (see `model`)
const RUN_DEPTH: usize = 1;

#[derive(Clone, Debug, PartialEq, Eq)]
enum Expect {
    /// the fixed parts of the transaction (processor, H.run) do not fit the limit table: harness mistake
    Background,
    Success,
    /// committed failure with one of these limit errors
    Limit(BTreeSet<&'static str>),
    /// committed failure with the (within-limit) panic message
    PanicMessage,
}

/// Reference model: interprets the script against the limit table. Depth layout: the transaction processor runs
/// in the root frame (depth 0), so a call made by a manifest instruction (`H.run`) runs at depth 1 — this is what
/// the repo's own kernel/frame.rs test relies on (MAX_CALL_DEPTH - 1 self-calls below the first call succeed).
fn model(ops: &[Op], lim: &LimitParameters, cal: &Calib) -> Expect {
    let run_depth = RUN_DEPTH;
    let mut events = 0usize;
    let mut logs = 0usize;
    // the invocation of H.run itself
    let run_args = scrypto_encode(&(ops.to_vec(),)).unwrap().len();
    let empty_args = scrypto_encode(&(Vec::<Op>::new(),)).unwrap().len();
    if run_depth > lim.max_call_depth || cal.run_callee + run_args > lim.max_invoke_input_size || cal.proc_base + (run_args - empty_args) > lim.max_invoke_input_size {
        return Expect::Background;
    }
    for op in ops {
        let mut ex: BTreeSet<&'static str> = BTreeSet::new();
        match *op {
            Op::Depth(n) => {
                // frames run_depth+1 ..= run_depth+n; the first one that does not fit fails
                if run_depth + n as usize > lim.max_call_depth {
                    ex.insert("MaxCallDepthLimitReached");
                }
                if n > 0 {
                    // payload of the recursion calls (only relevant when the invoke limit is tiny); the largest
                    // is the first one; depth and payload are checked in this order for each call, so when both
                    // are exceeded somewhere along the chain either can come first
                    let biggest = (0..n).map(|k| callee_len(F_RECURSE) + recurse_args(k).len()).max().unwrap();
                    if biggest > lim.max_invoke_input_size {
                        ex.insert("MaxInvokePayloadSizeExceeded");
                    }
                }
            }
            Op::Key(n) => {
                if n as usize > lim.max_substate_key_size {
                    ex.insert("MaxSubstateKeySizeExceeded");
                }
            }
            Op::Val(n) => {
                if n as usize + cal.val_overhead > lim.max_substate_value_size {
                    ex.insert("MaxSubstateSizeExceeded");
                }
            }
            Op::Invoke(n) => {
                if run_depth + 1 > lim.max_call_depth {
                    ex.insert("MaxCallDepthLimitReached");
                }
                if n as usize > lim.max_invoke_input_size {
                    ex.insert("MaxInvokePayloadSizeExceeded");
                }
            }
            Op::Event(n) => {
                if events + 1 > lim.max_number_of_events {
                    ex.insert("TooManyEvents");
                }
                if n as usize > lim.max_event_size {
                    ex.insert("EventSizeTooLarge");
                }
                events += 1;
            }
            Op::Log(n) => {
                if logs + 1 > lim.max_number_of_logs {
                    ex.insert("TooManyLogs");
                }
                if n as usize > lim.max_log_size {
                    ex.insert("LogSizeTooLarge");
                }
                logs += 1;
            }
            Op::Panic(n) => {
                if n as usize > lim.max_panic_message_size {
                    ex.insert("PanicMessageSizeTooLarge");
                } else {
                    return Expect::PanicMessage;
                }
            }
            Op::Events(n) => {
                if events + n as usize > lim.max_number_of_events {
                    ex.insert("TooManyEvents");
                }
                // the payload of the small events
                if n > 0 && SMALL_EVENT > lim.max_event_size {
                    ex.insert("EventSizeTooLarge");
                }
                events += n as usize;
            }
            Op::Logs(n) => {
                if logs + n as usize > lim.max_number_of_logs {
                    ex.insert("TooManyLogs");
                }
                logs += n as usize;
            }
            Op::Heap(_) => {}
        }
        if !ex.is_empty() {
            return Expect::Limit(ex);
        }
    }
    Expect::Success
}

// ------------------------------------------------------------------------------------------------
// running and observing
// ------------------------------------------------------------------------------------------------

#[derive(Clone, Debug, PartialEq, Eq)]
enum Obs {
    Success,
    Limit(String),
    PanicMessage,
    Other(String),
}

fn cfg_with(lim: &LimitParameters) -> ExecutionConfig {
    let mut cfg = ExecutionConfig::for_test_transaction();
    cfg.enable_cost_breakdown = false;
    cfg.system_overrides = Some(SystemOverrides { limit_parameters: Some(lim.clone()), disable_costing: true, ..SystemOverrides::with_network(NetworkDefinition::simulator()) });
    cfg
}

fn limit_variant(e: &TransactionLimitsError) -> &'static str {
    match e {
        TransactionLimitsError::MaxSubstateKeySizeExceeded(..) => "MaxSubstateKeySizeExceeded",
        TransactionLimitsError::MaxSubstateSizeExceeded(..) => "MaxSubstateSizeExceeded",
        TransactionLimitsError::MaxInvokePayloadSizeExceeded(..) => "MaxInvokePayloadSizeExceeded",
        TransactionLimitsError::MaxCallDepthLimitReached => "MaxCallDepthLimitReached",
        TransactionLimitsError::TrackSubstateSizeExceeded { .. } => "TrackSubstateSizeExceeded",
        TransactionLimitsError::HeapSubstateSizeExceeded { .. } => "HeapSubstateSizeExceeded",
        TransactionLimitsError::LogSizeTooLarge { .. } => "LogSizeTooLarge",
        TransactionLimitsError::EventSizeTooLarge { .. } => "EventSizeTooLarge",
        TransactionLimitsError::PanicMessageSizeTooLarge { .. } => "PanicMessageSizeTooLarge",
        TransactionLimitsError::TooManyLogs => "TooManyLogs",
        TransactionLimitsError::TooManyEvents => "TooManyEvents",
    }
}

fn classify_err(e: &RuntimeError) -> Obs {
    match e {
        RuntimeError::SystemModuleError(SystemModuleError::TransactionLimitsError(t)) => Obs::Limit(limit_variant(t).to_string()),
        RuntimeError::ApplicationError(ApplicationError::PanicMessage(m)) if !m.starts_with("LIMPROBE-HARNESS-ERROR") => Obs::PanicMessage,
        other => Obs::Other(mc_core::truncate(&format!("{other:?}"), 300)),
    }
}

/// Scan of a committed receipt against the limits: "no committed transaction exceeds …".
fn receipt_within_limits(c: &CommitResult, lim: &LimitParameters) -> Result<(), (String, String)> {
    if c.application_events.len() > lim.max_number_of_events {
        return Err(("committed-exceeds:max_number_of_events".into(), format!("{} events committed, limit {}", c.application_events.len(), lim.max_number_of_events)));
    }
    for (_, payload) in &c.application_events {
        if payload.len() > lim.max_event_size {
            return Err(("committed-exceeds:max_event_size".into(), format!("event of {} bytes committed, limit {}", payload.len(), lim.max_event_size)));
        }
    }
    if c.application_logs.len() > lim.max_number_of_logs {
        return Err(("committed-exceeds:max_number_of_logs".into(), format!("{} logs committed, limit {}", c.application_logs.len(), lim.max_number_of_logs)));
    }
    for (_, m) in &c.application_logs {
        if m.len() > lim.max_log_size {
            return Err(("committed-exceeds:max_log_size".into(), format!("log of {} bytes committed, limit {}", m.len(), lim.max_log_size)));
        }
    }
    for ((_node, _part, key), upd) in c.state_updates.clone().into_flattened_substate_updates() {
        let klen = match &key {
            SubstateKey::Map(m) => m.len(),
            SubstateKey::Sorted((_, m)) => m.len() + 2,
            SubstateKey::Field(_) => 1,
        };
        if klen > lim.max_substate_key_size {
            return Err(("committed-exceeds:max_substate_key_size".into(), format!("substate key of {klen} bytes committed, limit {}", lim.max_substate_key_size)));
        }
        if let DatabaseUpdate::Set(v) = upd {
            if v.len() > lim.max_substate_value_size {
                return Err(("committed-exceeds:max_substate_value_size".into(), format!("substate of {} bytes committed, limit {}", v.len(), lim.max_substate_value_size)));
            }
        }
    }
    Ok(())
}

struct RunOut {
    obs: Obs,
    /// scan result for committed receipts
    scan: Result<(), (String, String)>,
    /// size of the KV entry (key 0u8) of H written by this transaction, if any
    val_entry_size: Option<usize>,
}

fn run_script(sim: &mut PSim, base: &Base, ops: &[Op], lim: &LimitParameters) -> Result<RunOut, String> {
    sim.restore_snapshot(base.snap.clone());
    let m = ManifestBuilder::new().call_method(base.holder, F_RUN, (ops.to_vec(),)).build();
    let r = exec_cfg(sim, m, vec![], cfg_with(lim))?;
    Ok(match &r.result {
        TransactionResult::Commit(c) => {
            let scan = receipt_within_limits(c, lim);
            let mut val_entry_size = None;
            let key0 = scrypto_encode(&0u8).unwrap();
            for ((node, _part, key), upd) in c.state_updates.clone().into_flattened_substate_updates() {
                if node == *base.holder.as_node_id() {
                    if let (SubstateKey::Map(k), DatabaseUpdate::Set(v)) = (&key, &upd) {
                        if *k == key0 {
                            val_entry_size = Some(v.len());
                        }
                    }
                }
            }
            let obs = match &c.outcome {
                TransactionOutcome::Success(_) => Obs::Success,
                TransactionOutcome::Failure(e) => classify_err(e),
            };
            RunOut { obs, scan, val_entry_size }
        }
        TransactionResult::Reject(rj) => RunOut { obs: Obs::Other(format!("reject:{:?}", rj.reason)), scan: Ok(()), val_entry_size: None },
        TransactionResult::Abort(a) => RunOut { obs: Obs::Other(format!("abort:{:?}", a.reason)), scan: Ok(()), val_entry_size: None },
    })
}

fn agrees(exp: &Expect, obs: &Obs) -> bool {
    match (exp, obs) {
        (Expect::Success, Obs::Success) => true,
        (Expect::PanicMessage, Obs::PanicMessage) => true,
        (Expect::Limit(set), Obs::Limit(v)) => set.contains(v.as_str()),
        _ => false,
    }
}

#[derive(Clone, Debug)]
struct Case {
    ops: Vec<Op>,
    lim: LimitParameters,
    tag: String,
}

fn case_json(c: &Case) -> Value {
    json!({"ops": c.ops.iter().map(|o| format!("{o:?}")).collect::<Vec<_>>(), "ops_sbor": mc_core::hex(&scrypto_encode(&c.ops).unwrap()), "limits": limits_json(&c.lim), "tag": c.tag})
}

fn fam_op(l: Lim, n: u32) -> Op {
    match l {
        Lim::Depth => Op::Depth(n),
        Lim::Key => Op::Key(n),
        Lim::Val | Lim::Track => Op::Val(n),
        Lim::Invoke => Op::Invoke(n),
        Lim::Event => Op::Event(n),
        Lim::Log => Op::Log(n),
        Lim::Panic => Op::Panic(n),
        Lim::Events => Op::Events(n),
        Lim::Logs => Op::Logs(n),
        Lim::Heap => Op::Heap(n),
    }
}

/// n for a family at "its own quantity equals q" (the quantity the limit is compared with)
fn fam_n_for_quantity(l: Lim, q: i64, cal: &Calib) -> Option<u32> {
    let n = match l {
        // depth quantity = RUN_DEPTH + n
        Lim::Depth => q - RUN_DEPTH as i64,
        // stored size = n + overhead
        Lim::Val => q - cal.val_overhead as i64,
        _ => q,
    };
    if n < 0 {
        return None;
    }
    let n = n as usize;
    let ok = match l {
        Lim::Key | Lim::Val => bytes_payload(n).is_some(),
        Lim::Event => args_payload(n).is_some(),
        Lim::Invoke => n >= callee_len(F_NOOP) && args_payload(n - callee_len(F_NOOP)).is_some(),
        _ => true,
    };
    if ok {
        Some(n as u32)
    } else {
        None
    }
}

fn limit_values(l: Lim, thorough: bool) -> Vec<usize> {
    // Chosen above the fixed needs of the transaction itself (processor + H.run; checked by the calibration
    // cases: the family at a tiny n must succeed under every limit value used, else machinery error), avoiding
    // the LEB128 gaps of the size-exact builders, and straddling the 127/128 length-prefix boundary.
    let (q, t): (&[usize], &[usize]) = match l {
        Lim::Depth => (&[2, 4, 8], &[1, 2, 3, 4, 5, 6, 8, 12, 16]),
        Lim::Key => (&[64, 100, 200], &[48, 64, 100, 127, 129, 140, 200, 1024]),
        Lim::Val => (&[600, 1000, 20000], &[600, 700, 1000, 4096, 16500, 20000, 70000]),
        Lim::Invoke => (&[300, 500, 1000], &[300, 400, 500, 1000, 5000, 17000]),
        Lim::Event => (&[8, 100, 200], &[6, 8, 64, 100, 129, 140, 200, 1000, 17000]),
        Lim::Log => (&[0, 1, 100], &[0, 1, 2, 50, 100, 127, 128, 1000, 32768]),
        Lim::Panic => (&[0, 1, 100], &[0, 1, 2, 50, 100, 127, 128, 1000, 32768]),
        Lim::Events => (&[0, 1, 5], &[0, 1, 2, 3, 5, 16, 64, 256]),
        Lim::Logs => (&[0, 1, 5], &[0, 1, 2, 3, 5, 16, 64, 256]),
        Lim::Heap | Lim::Track => (&[], &[]),
    };
    if thorough {
        t.to_vec()
    } else {
        q.to_vec()
    }
}

const FAMILIES: [Lim; 9] = [Lim::Depth, Lim::Key, Lim::Val, Lim::Invoke, Lim::Event, Lim::Log, Lim::Panic, Lim::Events, Lim::Logs];

fn eval_case(sim: &mut PSim, base: &Base, cal: &Calib, c: &Case, l: &mut Local) {
    l.eval();
    let exp = model(&c.ops, &c.lim, cal);
    if exp == Expect::Background {
        mc_core::machinery_error(&format!("C49: case below the transaction's own needs was generated: {} {:?}", c.tag, c.ops));
    }
    let out = match run_script(sim, base, &c.ops, &c.lim) {
        Ok(o) => o,
        Err(p) => {
            l.violation(format!("panic@{}", mc_core::last_panic_location()), format!("panic escaped the engine: {p}"), case_json(c));
            return;
        }
    };
    if let Err((k, w)) = &out.scan {
        l.violation(k.clone(), w.clone(), case_json(c));
    }
    if let Obs::Other(t) = &out.obs {
        if t.contains("LIMPROBE-HARNESS-ERROR") {
            mc_core::machinery_error(&format!("C49 probe could not build a case: {t} for {:?}", c.ops));
        }
    }
    if agrees(&exp, &out.obs) {
        match &out.obs {
            Obs::Success => l.class("within-limits:success"),
            Obs::PanicMessage => l.class("within-limits:panic-message-delivered"),
            Obs::Limit(v) => l.class(&format!("exceeds:{v}")),
            Obs::Other(_) => unreachable!(),
        }
        l.sample(|| json!({"case": case_json(c), "expected": format!("{exp:?}"), "observed": format!("{:?}", out.obs)}));
    } else {
        let key = match (&exp, &out.obs) {
            (Expect::Success, Obs::Limit(v)) | (Expect::PanicMessage, Obs::Limit(v)) => format!("failed-within-limit:{v}"),
            (Expect::Limit(s), Obs::Success) | (Expect::Limit(s), Obs::PanicMessage) => format!("not-enforced:{}", s.iter().cloned().collect::<Vec<_>>().join("|")),
            (Expect::Limit(s), Obs::Limit(v)) => format!("wrong-limit-error:{}:got:{v}", s.iter().cloned().collect::<Vec<_>>().join("|")),
            (_, Obs::Other(_)) => "unexpected-outcome".to_string(),
            _ => "mismatch".to_string(),
        };
        l.violation(key, format!("{}: model expects {exp:?}, engine gave {:?}", c.tag, out.obs), case_json(c));
    }
}

fn calibrate(base: &Base) -> Calib {
    let mut sim = sim_from(&base.snap);
    let lim = LimitParameters::babylon_genesis();
    let mut overheads = BTreeSet::new();
    for n in [10usize, 100, 200, 1000, 20000] {
        let out = run_script(&mut sim, base, &[Op::Val(n as u32)], &lim).unwrap_or_else(|p| mc_core::machinery_error(&format!("C49 calibration panicked: {p}")));
        if out.obs != Obs::Success {
            mc_core::machinery_error(&format!("C49 calibration Val({n}) did not succeed under default limits: {:?}", out.obs));
        }
        let sz = out.val_entry_size.unwrap_or_else(|| mc_core::machinery_error("C49 calibration: written KV entry not found in the receipt"));
        overheads.insert(sz as i64 - n as i64);
    }
    if overheads.len() != 1 || *overheads.iter().next().unwrap() < 0 {
        mc_core::machinery_error(&format!("C49 calibration: KV entry overhead is not a constant: {overheads:?}"));
    }
    // size of the transaction processor's own invocation for the empty script: minimal invoke limit with success
    let (mut lo, mut hi) = (0usize, 1usize << 16);
    let ok = |v: usize, sim: &mut PSim| {
        let mut l = lim.clone();
        l.max_invoke_input_size = v;
        matches!(run_script(sim, base, &[], &l), Ok(RunOut { obs: Obs::Success, .. }))
    };
    if !ok(hi, &mut sim) || ok(lo, &mut sim) {
        mc_core::machinery_error("C49 calibration: cannot bracket the processor invocation size");
    }
    while hi - lo > 1 {
        let mid = (lo + hi) / 2;
        if ok(mid, &mut sim) {
            hi = mid;
        } else {
            lo = mid;
        }
    }
    Calib { val_overhead: *overheads.iter().next().unwrap() as usize, run_callee: method_callee_len(F_RUN), proc_base: hi }
}

fn build_cases(ctx: &Ctx, cal: &Calib) -> (Vec<Case>, Vec<Case>) {
    let thorough = !ctx.quick();
    let window: Vec<i64> = if thorough { vec![-2, -1, 0, 1, 2] } else { vec![-1, 0, 1] };
    let default = LimitParameters::babylon_genesis();
    let mut cases = vec![];
    let mut calib_cases = vec![];
    for fam in FAMILIES {
        for lv in limit_values(fam, thorough) {
            let mut lim = default.clone();
            set_lim(&mut lim, fam, lv);
            // calibration: the family at its smallest n under this limit value must not trip over the limit unless the
            // model itself says so (then the limit value is below the transaction's own needs and is reported)
            for d in &window {
                let q = lv as i64 + d;
                if let Some(n) = fam_n_for_quantity(fam, q, cal) {
                    cases.push(Case { ops: vec![fam_op(fam, n)], lim: lim.clone(), tag: format!("{}={lv}:n=limit{:+}", lim_name(fam), d) });
                }
            }
        }
    }
    // pairs of two different families, both limits at their first (smallest usable) value, both n ∈ {ℓ, ℓ+1}, both orders
    let pair_vals = |f: Lim| -> Vec<usize> {
        let v = limit_values(f, false);
        if thorough {
            vec![v[0], v[1]]
        } else {
            vec![v[1]]
        }
    };
    for (i, fa) in FAMILIES.iter().enumerate() {
        for fb in FAMILIES.iter().skip(i + 1) {
            for la in pair_vals(*fa) {
                for lb in pair_vals(*fb) {
                    let mut lim = default.clone();
                    set_lim(&mut lim, *fa, la);
                    set_lim(&mut lim, *fb, lb);
                    for da in [0i64, 1] {
                        for db in [0i64, 1] {
                            let (Some(na), Some(nb)) = (fam_n_for_quantity(*fa, la as i64 + da, cal), fam_n_for_quantity(*fb, lb as i64 + db, cal)) else { continue };
                            let a = fam_op(*fa, na);
                            let b = fam_op(*fb, nb);
                            let tag = format!("pair:{}={la}{:+},{}={lb}{:+}", lim_name(*fa), da, lim_name(*fb), db);
                            cases.push(Case { ops: vec![a, b], lim: lim.clone(), tag: format!("{tag}:ab") });
                            cases.push(Case { ops: vec![b, a], lim: lim.clone(), tag: format!("{tag}:ba") });
                        }
                    }
                }
            }
        }
    }
    // calibration set: every case's script shape with all parameters tiny, under the same limit table
    let mut seen = BTreeSet::new();
    for c in &cases {
        let tiny: Vec<Op> = c.ops.iter().map(tiny_op).collect();
        if seen.insert((format!("{tiny:?}"), limits_json(&c.lim).to_string())) {
            calib_cases.push(Case { ops: tiny, lim: c.lim.clone(), tag: format!("calibration of [{}]", c.tag) });
        }
    }
    (cases, calib_cases)
}

/// the same op with the smallest constructible parameter
fn tiny_op(op: &Op) -> Op {
    match op {
        Op::Depth(_) => Op::Depth(0),
        Op::Key(_) => Op::Key(4),
        Op::Val(_) => Op::Val(4),
        Op::Invoke(_) => Op::Invoke((callee_len(F_NOOP) + 6) as u32),
        Op::Event(_) => Op::Event(SMALL_EVENT as u32),
        Op::Log(_) => Op::Log(0),
        Op::Panic(_) => Op::Panic(0),
        Op::Events(_) => Op::Events(0),
        Op::Logs(_) => Op::Logs(0),
        Op::Heap(_) => Op::Heap(4),
    }
}

// ------------------------------------------------------------------------------------------------
// heap / track: differential single-threshold oracle
// ------------------------------------------------------------------------------------------------

fn differential(ctx: &Ctx, base: &Base, which: Lim, sizes: &[u32], l: &mut Local, thresholds: &mut Map<String, Value>) {
    let err_name = if which == Lim::Heap { "HeapSubstateSizeExceeded" } else { "TrackSubstateSizeExceeded" };
    let mut sim = sim_from(&base.snap);
    let default = LimitParameters::babylon_genesis();
    let mut run = |n: u32, limit: usize, l: &mut Local| -> Obs {
        l.eval();
        let mut lim = default.clone();
        set_lim(&mut lim, which, limit);
        let c = Case { ops: vec![fam_op(which, n)], lim: lim.clone(), tag: format!("{}={limit}:differential", lim_name(which)) };
        match run_script(&mut sim, base, &c.ops, &lim) {
            Ok(o) => {
                if let Err((k, w)) = &o.scan {
                    l.violation(k.clone(), w.clone(), case_json(&c));
                }
                o.obs
            }
            Err(p) => {
                l.violation(format!("panic@{}", mc_core::last_panic_location()), format!("panic escaped the engine: {p}"), case_json(&c));
                Obs::Other("panic".into())
            }
        }
    };
    let mut ts: Vec<(u32, usize)> = vec![];
    for &n in sizes {
        // bisection for the minimal limit with success, assuming monotonicity (verified on the window below)
        let (mut lo, mut hi) = (0usize, 1usize << 22);
        if run(n, hi, l) != Obs::Success {
            mc_core::machinery_error(&format!("C49 {}: script does not succeed even with a 4 MiB limit", lim_name(which)));
        }
        if run(n, lo, l) == Obs::Success {
            // threshold 0: nothing is accounted for this script; nothing to check
            l.info(&format!("{}:threshold-is-zero", lim_name(which)));
            continue;
        }
        while hi - lo > 1 {
            let mid = (lo + hi) / 2;
            if run(n, mid, l) == Obs::Success {
                hi = mid;
            } else {
                lo = mid;
            }
        }
        let t = hi;
        let w = if ctx.quick() { 3usize } else { 8 };
        for limit in t.saturating_sub(w)..=t + w {
            let obs = run(n, limit, l);
            let mut lim = default.clone();
            set_lim(&mut lim, which, limit);
            let c = Case { ops: vec![fam_op(which, n)], lim, tag: format!("{}: threshold {t}, limit {limit}", lim_name(which)) };
            if limit >= t {
                if obs == Obs::Success {
                    l.class(&format!("differential:{}:at-or-above-threshold:success", lim_name(which)));
                } else {
                    l.violation(format!("threshold-not-single:{}", lim_name(which)), format!("script n={n}: succeeds at limit {t} but at limit {limit} gives {obs:?}"), case_json(&c));
                }
            } else {
                match &obs {
                    Obs::Limit(v) if v == err_name => l.class(&format!("differential:{}:below-threshold:{err_name}", lim_name(which))),
                    Obs::Success => l.violation(format!("threshold-not-single:{}", lim_name(which)), format!("script n={n}: fails at limit {} but succeeds at the smaller limit {limit}", t - 1), case_json(&c)),
                    other => l.violation(format!("wrong-limit-error:{err_name}"), format!("script n={n}: below its threshold {t} (limit {limit}) the failure is {other:?}, not {err_name}"), case_json(&c)),
                }
            }
        }
        ts.push((n, t));
        thresholds.insert(format!("{}:n={n}", lim_name(which)), json!(t));
    }
    // one more byte of payload ⇒ threshold + 1
    for w in ts.windows(2) {
        let ((n0, t0), (n1, t1)) = (w[0], w[1]);
        if n1 == n0 + 1 {
            let mut lim = default.clone();
            set_lim(&mut lim, which, t1);
            let c = Case { ops: vec![fam_op(which, n1)], lim, tag: format!("{}: T({n0})={t0}, T({n1})={t1}", lim_name(which)) };
            if t1 == t0 + 1 {
                l.class(&format!("differential:{}:one-byte-more-threshold+1", lim_name(which)));
            } else {
                l.violation(format!("threshold-step:{}", lim_name(which)), format!("T(n={n0}) = {t0} but T(n={n1}) = {t1}; one more byte must move the threshold by exactly 1"), case_json(&c));
            }
        }
    }
}

// ------------------------------------------------------------------------------------------------

pub fn run(ctx: Ctx) -> ! {
    let base = build_base();
    let cal = calibrate(&base);

    if let Some(case) = ctx.read_replay_case() {
        let ops_hex = case.get("ops_sbor").and_then(|x| x.as_str()).unwrap_or("");
        let ops: Vec<Op> = scrypto_decode(&mc_core::unhex(ops_hex)).unwrap_or_else(|e| mc_core::machinery_error(&format!("bad ops in replay: {e:?}")));
        let lim = limits_from_json(case.get("limits").unwrap_or(&Value::Null));
        let c = Case { ops, lim, tag: "replay".into() };
        let mut sim = sim_from(&base.snap);
        let mut l = Local::new();
        let exp = model(&c.ops, &c.lim, &cal);
        let out = run_script(&mut sim, &base, &c.ops, &c.lim);
        println!("REPLAY ops={:?}\n  limits={}\n  model expects: {exp:?}\n  engine: {:?}", c.ops, limits_json(&c.lim), out.as_ref().map(|o| o.obs.clone()));
        eval_case(&mut sim, &base, &cal, &c, &mut l);
        l.class("replay");
        ctx.merge(l);
        ctx.finish(Level::Exploration, "replay", 1, true, Map::new(), &[]);
    }

    let (cases, calib_cases) = build_cases(&ctx, &cal);

    // calibration of the chosen limit tables: the same script shapes with tiny parameters must behave as the model
    // says (otherwise a limit value is below the fixed needs of the transaction itself — processor, auth zone,
    // package lookups — and the family's boundary would not be about the family's op): harness mistake, exit 2
    {
        let bad: std::sync::Mutex<Vec<String>> = std::sync::Mutex::new(vec![]);
        let outs = mc_core::par_map(ctx.threads, &calib_cases, |c| {
            let mut sim = sim_from(&base.snap);
            let exp = model(&c.ops, &c.lim, &cal);
            let out = run_script(&mut sim, &base, &c.ops, &c.lim);
            (exp, out.map(|o| o.obs))
        });
        for (c, (exp, out)) in calib_cases.iter().zip(outs) {
            match out {
                Ok(obs) if exp != Expect::Background && agrees(&exp, &obs) => {}
                Ok(obs) => bad.lock().unwrap().push(format!("{} ops={:?}: model {exp:?}, engine {obs:?}", c.tag, c.ops)),
                Err(p) => bad.lock().unwrap().push(format!("{}: panic {p}", c.tag)),
            }
        }
        let bad = bad.into_inner().unwrap();
        if !bad.is_empty() {
            mc_core::machinery_error(&format!("C49: {} calibration case(s) disagree (limit value below the transaction's own needs?): first: {}", bad.len(), bad[0]));
        }
        ctx.note(format!("{} calibration transactions (tiny parameters under every limit table used) agreed with the model", calib_cases.len()));
    }

    par_for(&ctx, &cases, |c, l| {
        thread_local! { static SIM: std::cell::RefCell<Option<PSim>> = const { std::cell::RefCell::new(None) }; }
        SIM.with(|s| {
            let mut s = s.borrow_mut();
            if s.is_none() {
                *s = Some(sim_from(&base.snap));
            }
            eval_case(s.as_mut().unwrap(), &base, &cal, c, l);
        });
    });

    // heap / track
    let mut thresholds = Map::new();
    {
        let mut l = Local::new();
        let sizes: Vec<u32> = if ctx.quick() { vec![2000, 2001] } else { vec![100, 101, 102, 2000, 2001, 2002, 20000, 20001] };
        differential(&ctx, &base, Lim::Heap, &sizes, &mut l, &mut thresholds);
        differential(&ctx, &base, Lim::Track, &sizes, &mut l, &mut thresholds);
        ctx.merge(l);
    }

    // measured: number of distinct (family/pair, limit table) configurations whose boundary was crossed in both directions
    let classes = ctx.classes();
    let nontrivial = cases.iter().map(|c| format!("{:?}|{}", c.ops.iter().map(std::mem::discriminant).collect::<Vec<_>>(), limits_json(&c.lim))).collect::<BTreeSet<_>>().len() as u64;
    let _ = classes;

    let mut cov = Map::new();
    cov.insert("programs".into(), json!(cases.len() as u64));
    cov.insert("families".into(), json!(FAMILIES.iter().map(|f| lim_name(*f)).collect::<Vec<_>>()));
    cov.insert(
        "limit_values".into(),
        Value::Object(FAMILIES.iter().map(|f| (lim_name(*f).to_string(), json!(limit_values(*f, !ctx.quick())))).collect()),
    );
    cov.insert("n_window".into(), json!(if ctx.quick() { "limit-1 ..= limit+1" } else { "limit-2 ..= limit+2" }));
    cov.insert("pairs".into(), json!("all unordered pairs of 2 different families x both orders x n in {limit, limit+1}^2"));
    cov.insert("calibration".into(), json!({"kv_entry_overhead_bytes": cal.val_overhead, "run_callee_bytes": cal.run_callee}));
    cov.insert("differential_thresholds".into(), Value::Object(thresholds));
    cov.insert(
        "limits_covered".into(),
        json!(["max_call_depth", "max_substate_key_size (map keys)", "max_substate_value_size (KV entry write)", "max_invoke_input_size", "max_event_size", "max_log_size",
               "max_panic_message_size", "max_number_of_events", "max_number_of_logs", "max_heap_substate_total_bytes (differential)", "max_track_substate_total_bytes (differential)"]),
    );
    cov.insert(
        "not_covered".into(),
        json!(["sorted-index keys (key size + 2) and field keys", "substate value size on node creation / field write paths (only KV entry writes are driven; Heap(n) creates objects under the default value limit)",
               "absolute heap/track byte accounting (implementation-defined; only single-threshold and +1-byte step are checked)", "limits under a costing-enabled configuration (costing is disabled so that small limits are usable)",
               "WASM-side limits (memory, buffers) and costing limits are not part of LimitParameters"]),
    );
    ctx.finish(
        Level::Exploration,
        "distinct (script shape, limit table) configurations; each is evaluated at every n of the window around the limit",
        nontrivial,
        true,
        cov,
        &[
            "call depth: the transaction processor runs in the root frame (depth 0); the call made by the manifest instruction (H.run) is at depth 1, each nested call one deeper; a call at depth d is allowed iff d <= max_call_depth",
            "invoke payload size = SBOR argument bytes + callee identification bytes (node id / package address + blueprint + function name), as KernelInvocation::len defines it",
            "the stored size of a KV entry = payload + a constant wrapper overhead measured from committed receipts (asserted constant over 5 payload sizes)",
            "costing disabled (SystemOverrides.disable_costing) so that no fee-lock background interferes with small limits; limits module enabled",
        ],
    )
}
