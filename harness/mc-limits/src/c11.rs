//! C11 — no transaction can crash the engine.
//!
//! Targets: every function and method of every native blueprint, read from the package definitions stored in the
//! genesis database (`get_package_blueprint_definitions` + the package's own Scrypto schemas). For each entry point
//! that a manifest can address (functions; methods of global receivers instantiated once in the base state; module
//! methods; direct-access vault methods; bucket / proof methods through a forwarding probe) the harness
//!   (a) finds a default argument tuple automatically (schema-directed, tried under a list of generation contexts —
//!       which resource the buckets / addresses use, `Some` vs `None` — until one commits successfully) and executes
//!       every tuple that differs from it in ≤ 1 node position (thorough: ≤ 2 for small entry points), each node over
//!       its schema-directed alphabet (sgen.rs);
//!   (b) executes every single-point mutation (`mc_core::gen::mutations`, quick 12-byte alphabet) of the default's
//!       manifest-SBOR bytes that still decodes as a manifest value, through a raw call instruction;
//!   (c) repeats (a) — thorough: also (b) — from two non-initial states.
//! Oracle: the execution returns a receipt (no panic escapes `catch_unwind`) and the receipt's error, if any, is not a
//! trapped native panic (`VmError::Native(NativeRuntimeError::Trap)`) nor `SystemError::SystemPanic`.
//! Transactions are executed without committing (`execute_transaction_no_commit` on the worker's copy of the state,
//! fixed nonce), so every input sees exactly the same state and the run is deterministic.
use crate::sgen::*;
use crate::world::*;
use mc_core::{par_for, par_map, Ctx, Level, Local};
use mc_ledger::*;
use radix_engine::errors::{NativeRuntimeError, RuntimeError, SystemError, VmError};
use radix_transactions::manifest::*;
use serde_json::{json, Map, Value};
use std::collections::{BTreeMap, BTreeSet};

const NATIVE_PACKAGES: &[(&str, PackageAddress)] = &[
    ("package", PACKAGE_PACKAGE),
    ("resource", RESOURCE_PACKAGE),
    ("account", ACCOUNT_PACKAGE),
    ("identity", IDENTITY_PACKAGE),
    ("consensus_manager", CONSENSUS_MANAGER_PACKAGE),
    ("access_controller", ACCESS_CONTROLLER_PACKAGE),
    ("pool", POOL_PACKAGE),
    ("transaction_processor", TRANSACTION_PROCESSOR_PACKAGE),
    ("metadata", METADATA_MODULE_PACKAGE),
    ("royalty", ROYALTY_MODULE_PACKAGE),
    ("role_assignment", ROLE_ASSIGNMENT_MODULE_PACKAGE),
    ("transaction_tracker", TRANSACTION_TRACKER_PACKAGE),
    ("locker", LOCKER_PACKAGE),
];

#[derive(Clone, Copy, Debug, PartialEq, Eq, PartialOrd, Ord)]
enum CallKind {
    Function,
    Method,
    Royalty,
    Metadata,
    RoleAssignment,
    DirectVault,
    /// method of a bucket / proof created by the preamble, called by the forwarding probe with a raw Scrypto payload
    FwdBucket,
    FwdProof,
}

#[derive(Clone, Debug)]
struct Target {
    pkg: PackageAddress,
    bp: String,
    ident: String,
    kind: CallKind,
    receiver: Option<NodeId>,
    receiver_label: String,
    schema_hash: SchemaHash,
    type_id: LocalTypeId,
}

impl Target {
    fn label(&self) -> String {
        match self.kind {
            CallKind::Function => format!("{}::{}", self.bp, self.ident),
            _ => format!("{}.{}@{}", self.bp, self.ident, self.receiver_label),
        }
    }
    fn call(&self, args: ManifestValue) -> InstructionV1 {
        let name = self.ident.clone();
        let ga = || ManifestGlobalAddress::Static(GlobalAddress::new_or_panic(self.receiver.unwrap().0));
        match self.kind {
            CallKind::Function => {
                InstructionV1::CallFunction(CallFunction { package_address: ManifestPackageAddress::Static(self.pkg), blueprint_name: self.bp.clone(), function_name: name, args })
            }
            CallKind::Method => InstructionV1::CallMethod(CallMethod { address: ga(), method_name: name, args }),
            CallKind::Royalty => InstructionV1::CallRoyaltyMethod(CallRoyaltyMethod { address: ga(), method_name: name, args }),
            CallKind::Metadata => InstructionV1::CallMetadataMethod(CallMetadataMethod { address: ga(), method_name: name, args }),
            CallKind::RoleAssignment => InstructionV1::CallRoleAssignmentMethod(CallRoleAssignmentMethod { address: ga(), method_name: name, args }),
            CallKind::DirectVault => {
                InstructionV1::CallDirectVaultMethod(CallDirectVaultMethod { address: InternalAddress::new_or_panic(self.receiver.unwrap().0), method_name: name, args })
            }
            CallKind::FwdBucket | CallKind::FwdProof => unreachable!("forwarded calls are built by build_call"),
        }
    }
    fn is_fwd(&self) -> bool {
        matches!(self.kind, CallKind::FwdBucket | CallKind::FwdProof)
    }
    /// the receiver object of a forwarded call
    fn fwd_receiver(&self, w: &W11) -> G {
        match (self.kind, self.bp.as_str()) {
            (CallKind::FwdBucket, "NonFungibleBucket") => G::Bucket(BSpec::Ids(w.nfall, vec![2, 3])),
            (CallKind::FwdBucket, _) => G::Bucket(BSpec::Amount(w.fall, dec!(2))),
            (_, "NonFungibleProof") => G::Proof(PSpec::Ids(w.nfall, vec![2, 3])),
            _ => G::Proof(PSpec::Amount(w.fall, dec!(2))),
        }
    }
}

/// Preamble + call instruction + what to print for one input. None: the input cannot be encoded.
fn build_call(w: &W11, t: &Target, dflt: (ResourceAddress, Decimal), default_tree: &G, input: &Input) -> Option<(Vec<InstructionV1>, InstructionV1, String, String)> {
    if t.is_fwd() {
        let bytes = match input {
            Input::Tree(g) => scrypto_encode(&g2s(g)).ok()?,
            Input::Bytes(b) => b.clone(),
        };
        let outer = G::Tuple(vec![t.fwd_receiver(w), G::V(ManifestValue::String { value: t.ident.clone() }), G::V(to_mv(&bytes))]);
        let low = lower(&outer, w.w.a.addr, dflt);
        let call = InstructionV1::CallFunction(CallFunction { package_address: ManifestPackageAddress::Static(w.fwd_pkg), blueprint_name: FWD_BP.to_string(), function_name: if t.kind == CallKind::FwdProof { "fwd_proof".into() } else { "fwd".into() }, args: low.value });
        let shown = scrypto_decode::<ScryptoValue>(&bytes).map(|v| format!("{v:?}")).unwrap_or_else(|_| "(not SBOR)".into());
        Some((low.preamble, call, shown, mc_core::hex(&bytes)))
    } else {
        let (pre, v) = match input {
            Input::Tree(g) => {
                let low = lower(g, w.w.a.addr, dflt);
                (low.preamble, low.value)
            }
            Input::Bytes(b) => (lower(default_tree, w.w.a.addr, dflt).preamble, manifest_decode::<ManifestValue>(b).ok()?),
        };
        let enc = encodable(&v)?;
        Some((pre, t.call(v.clone()), format!("{v:?}"), mc_core::hex(&enc)))
    }
}

/// receivers per blueprint name: (label, node, call kind)
fn receivers(w: &W11) -> BTreeMap<&'static str, Vec<(&'static str, NodeId, CallKind)>> {
    let g = |a: GlobalAddress| *a.as_node_id();
    let mut m: BTreeMap<&'static str, Vec<(&'static str, NodeId, CallKind)>> = BTreeMap::new();
    use CallKind::*;
    m.insert("FungibleResourceManager", vec![("fall", g(w.fall.into()), Method), ("xrd", g(XRD.into()), Method)]);
    m.insert("NonFungibleResourceManager", vec![("nfall", g(w.nfall.into()), Method), ("nf", g(w.w.nf.into()), Method)]);
    m.insert("FungibleVault", vec![("vault_fall_of_B", *w.vault_f.as_node_id(), DirectVault)]);
    m.insert("NonFungibleVault", vec![("vault_nfall_of_B", *w.vault_nf.as_node_id(), DirectVault)]);
    m.insert("Account", vec![("A", g(w.w.a.addr.into()), Method)]);
    m.insert("Identity", vec![("identity", g(w.identity.into()), Method)]);
    m.insert("Validator", vec![("own_validator", g(w.own_validator.into()), Method), ("genesis_validator", g(w.x.validator.into()), Method)]);
    m.insert("ConsensusManager", vec![("consensus_manager", g(CONSENSUS_MANAGER.into()), Method)]);
    m.insert("AccessController", vec![("access_controller", g(w.ac.into()), Method)]);
    m.insert("OneResourcePool", vec![("pool1", g(w.x.pool.into()), Method)]);
    m.insert("TwoResourcePool", vec![("pool2", g(w.pool2.into()), Method)]);
    m.insert("MultiResourcePool", vec![("poolm", g(w.poolm.into()), Method)]);
    m.insert("AccountLocker", vec![("locker", g(w.locker.into()), Method)]);
    m.insert("Package", vec![("wat_package", g(w.wat_pkg.into()), Method)]);
    m.insert("Metadata", vec![("fall", g(w.fall.into()), Metadata), ("A", g(w.w.a.addr.into()), Metadata)]);
    m.insert("RoleAssignment", vec![("fall", g(w.fall.into()), RoleAssignment), ("royalty_comp", g(w.royalty_comp.into()), RoleAssignment)]);
    m.insert("ComponentRoyalty", vec![("royalty_comp", g(w.royalty_comp.into()), Royalty)]);
    m.insert("TransactionTracker", vec![("transaction_tracker", g(TRANSACTION_TRACKER.into()), Method)]);
    m
}

struct Discovery {
    targets: Vec<Target>,
    schemas: BTreeMap<(PackageAddress, SchemaHash), VersionedScryptoSchema>,
    /// (blueprint, ident, why)
    not_driven: Vec<(String, String, String)>,
    entry_points: usize,
    blueprints: BTreeSet<String>,
}

fn discover(sim: &FSim, w: &W11) -> Discovery {
    let recv = receivers(w);
    let mut d = Discovery { targets: vec![], schemas: BTreeMap::new(), not_driven: vec![], entry_points: 0, blueprints: BTreeSet::new() };
    for (_, pkg) in NATIVE_PACKAGES {
        let defs = sim.get_package_blueprint_definitions(pkg);
        if defs.is_empty() {
            mc_core::machinery_error(&format!("C11: native package {pkg:?} has no blueprint definitions in the genesis database"));
        }
        for (h, s) in sim.get_package_radix_blueprint_schema_inits(pkg) {
            d.schemas.insert((*pkg, h), s);
        }
        let mut defs: Vec<_> = defs.into_iter().collect();
        defs.sort_by(|a, b| a.0.blueprint.cmp(&b.0.blueprint));
        for (key, def) in defs {
            let bp = key.blueprint.clone();
            d.blueprints.insert(bp.clone());
            let mut fns: Vec<_> = def.interface.functions.iter().collect();
            fns.sort_by(|a, b| a.0.cmp(b.0));
            for (ident, fs) in fns {
                d.entry_points += 1;
                let (schema_hash, type_id) = match &fs.input {
                    BlueprintPayloadDef::Static(ScopedTypeId(h, t)) => (*h, *t),
                    BlueprintPayloadDef::Generic(_) => {
                        d.not_driven.push((bp.clone(), ident.clone(), "generic input type".into()));
                        continue;
                    }
                };
                match &fs.receiver {
                    None => d.targets.push(Target { pkg: *pkg, bp: bp.clone(), ident: ident.clone(), kind: CallKind::Function, receiver: None, receiver_label: String::new(), schema_hash, type_id }),
                    Some(_info) if matches!(bp.as_str(), "FungibleBucket" | "NonFungibleBucket" | "FungibleProof" | "NonFungibleProof") => {
                        let kind = if bp.ends_with("Bucket") { CallKind::FwdBucket } else { CallKind::FwdProof };
                        d.targets.push(Target { pkg: *pkg, bp: bp.clone(), ident: ident.clone(), kind, receiver: None, receiver_label: "via-forwarding-probe".into(), schema_hash, type_id });
                    }
                    Some(_info) => match recv.get(bp.as_str()) {
                        Some(rs) => {
                            for (label, node, kind) in rs {
                                d.targets.push(Target { pkg: *pkg, bp: bp.clone(), ident: ident.clone(), kind: *kind, receiver: Some(*node), receiver_label: label.to_string(), schema_hash, type_id });
                            }
                        }
                        None => d.not_driven.push((bp.clone(), ident.clone(), "internal object: no receiver addressable from a manifest call instruction (reached only through typed manifest instructions)".into())),
                    },
                }
            }
        }
    }
    d
}

// ------------------------------------------------------------------------------------------------
// execution and oracle
// ------------------------------------------------------------------------------------------------

const NONCE: u32 = 777_777;

#[derive(Clone, Copy, Debug, PartialEq, Eq, PartialOrd, Ord)]
enum Role {
    User,
    System,
}

fn proofs_of(w: &W11, role: Role) -> BTreeSet<NonFungibleGlobalId> {
    let mut p: BTreeSet<NonFungibleGlobalId> = w.user_proofs.iter().cloned().collect();
    if role == Role::System {
        p.extend(w.system_proofs.iter().cloned());
    }
    p
}

/// `lock_fee(B)`; preamble; call; `A.deposit_batch(ENTIRE_WORKTOP)`. The fee comes from account B so that the fee
/// vault of A (the account under test) is untouched when the call under test runs.
fn full_manifest(w: &W11, preamble: &[InstructionV1], call: Option<InstructionV1>) -> TransactionManifestV1 {
    let a = w.w.a.addr;
    let mut ins: Vec<InstructionV1> = Vec::with_capacity(preamble.len() + 3);
    ins.push(InstructionV1::CallMethod(CallMethod { address: ManifestGlobalAddress::Static(w.w.b.addr.into()), method_name: "lock_fee".into(), args: to_mv(&(dec!(500),)) }));
    ins.extend(preamble.iter().cloned());
    if let Some(call) = call {
        ins.push(call);
    }
    ins.push(InstructionV1::CallMethod(CallMethod {
        address: ManifestGlobalAddress::Static(a.into()),
        method_name: "deposit_batch".into(),
        args: ManifestValue::Tuple { fields: vec![ManifestValue::Custom { value: ManifestCustomValue::Expression(ManifestExpression::EntireWorktop) }] },
    }));
    TransactionManifestV1 { instructions: ins, blobs: w.blobs.clone(), object_names: Default::default() }
}

fn exec_cfg_c11() -> ExecutionConfig {
    let mut cfg = ExecutionConfig::for_test_transaction();
    cfg.enable_cost_breakdown = false;
    cfg
}

enum Outcome {
    Receipt(TransactionReceipt),
    /// the simulator could not turn the manifest into an executable (not an engine execution)
    NotExecutable(String),
    EscapedPanic(String, String),
}

fn execute(sim: &mut FSim, manifest: TransactionManifestV1, proofs: BTreeSet<NonFungibleGlobalId>) -> Outcome {
    let r = mc_core::catch(|| {
        let tt = TestTransaction::new_v1_from_nonce(manifest, NONCE, proofs);
        sim.execute_transaction_no_commit(tt, exec_cfg_c11())
    });
    match r {
        Ok(r) => Outcome::Receipt(r),
        Err(p) if p.contains("should be convertible to executable") => Outcome::NotExecutable(p),
        Err(p) => Outcome::EscapedPanic(p, norm_loc(&mc_core::last_panic_location())),
    }
}

/// strip the checkout prefix so that keys are the same in /repo and in a mutant workspace
fn norm_loc(loc: &str) -> String {
    for marker in ["/radix-", "/sbor", "/scrypto"] {
        if let Some(i) = loc.find(marker) {
            return loc[i + 1..].to_string();
        }
    }
    loc.to_string()
}

fn runtime_error(r: &TransactionReceipt) -> Option<&RuntimeError> {
    match &r.result {
        TransactionResult::Commit(c) => match &c.outcome {
            TransactionOutcome::Success(_) => None,
            TransactionOutcome::Failure(e) => Some(e),
        },
        TransactionResult::Reject(rj) => match &rj.reason {
            RejectionReason::ErrorBeforeLoanAndDeferredCostsRepaid(e) => Some(e),
            RejectionReason::BootloadingError(_) => None,
            _ => None,
        },
        TransactionResult::Abort(_) => None,
    }
}

/// Some((key, description)) when the receipt reports a trapped native panic / system panic
fn trapped(r: &TransactionReceipt) -> Option<(String, String)> {
    let txt_check = |s: &str| s.contains("SystemPanic(") || s.contains("Trap {");
    match runtime_error(r) {
        Some(RuntimeError::VmError(VmError::Native(NativeRuntimeError::Trap { export_name, error, .. }))) => {
            Some((format!("trap@{}", norm_loc(&mc_core::last_panic_location())), format!("native blueprint trapped in export {export_name}: {error}")))
        }
        Some(RuntimeError::SystemError(SystemError::SystemPanic(m))) => Some((format!("system-panic@{}", norm_loc(&mc_core::last_panic_location())), format!("system layer panicked: {m}"))),
        Some(_) => None,
        None => {
            // rejections / aborts that carry an error in another shape
            let t = failure_text(r);
            if !is_success(r) && txt_check(&t) {
                Some((format!("panic-in-receipt@{}", norm_loc(&mc_core::last_panic_location())), mc_core::truncate(&t, 300)))
            } else {
                None
            }
        }
    }
}

fn reached_native_code(r: &TransactionReceipt) -> bool {
    match runtime_error(r) {
        None => is_success(r),
        Some(RuntimeError::ApplicationError(_)) => true,
        _ => false,
    }
}

fn is_auth_failure(r: &TransactionReceipt) -> bool {
    failure_text(r).contains("AuthError")
}

// ------------------------------------------------------------------------------------------------
// defaults
// ------------------------------------------------------------------------------------------------

#[derive(Clone, Debug)]
struct Dflt {
    tree: G,
    defaults: Defaults,
    role: Role,
    class: String,
    success: bool,
    reached: bool,
    /// the receiver / module does not accept this call form at all (refused before the arguments are looked at):
    /// only the default tuple is sent
    refused_form: bool,
    hand_registered: bool,
}

fn contexts(w: &W11) -> Vec<Defaults> {
    let res = [w.w.f18, XRD, w.fall, w.nfall, w.w.nf, w.x.pool_unit, w.pool2_unit, w.poolm_unit, w.x.stake_unit, w.x.claim_nft, w.own_stake_unit, w.own_claim_nft, w.w.rc, w.w.f2, w.w.f0];
    let base = |r: ResourceAddress| Defaults { res: r, amount: dec!(1), string: "a".into(), nf_id: 2, some: false, prefer_b: false };
    let mut out = vec![];
    for r in res {
        out.push(base(r));
    }
    for r in res {
        out.push(Defaults { some: true, ..base(r) });
    }
    // a fresh non-fungible id (mint), enough XRD for a validator, account B as the subject, known strings
    for r in [w.nfall, w.w.nf, w.w.f18] {
        out.push(Defaults { nf_id: 77, ..base(r) });
    }
    out.push(Defaults { amount: dec!(2000), ..base(XRD) });
    for r in [w.w.f18, w.nfall, w.fall] {
        out.push(Defaults { prefer_b: true, ..base(r) });
        out.push(Defaults { prefer_b: true, nf_id: 5, ..base(r) });
    }
    for s in ["name", "minter", "_owner_", "level"] {
        for r in [w.w.f18, w.fall, w.nfall] {
            out.push(Defaults { string: s.into(), ..base(r) });
        }
    }
    out
}

/// Hand-registered defaults for entry points whose valid arguments the automatic search cannot guess.
/// Arguments are taken from the repo's own manifest builder where possible.
fn hand_default(w: &W11, t: &Target) -> Option<G> {
    let first_args = |m: TransactionManifestV1| -> Option<G> {
        match m.instructions.into_iter().next()? {
            InstructionV1::CallFunction(c) => Some(mv2g(&c.args)),
            InstructionV1::CallMethod(c) => Some(mv2g(&c.args)),
            _ => None,
        }
    };
    let nf_roles = || NonFungibleResourceRoles {
        mint_roles: mint_roles! { minter => rule!(allow_all); minter_updater => rule!(deny_all); },
        burn_roles: burn_roles! { burner => rule!(allow_all); burner_updater => rule!(deny_all); },
        ..Default::default()
    };
    let f = |r: ResourceAddress, a: Decimal| G::Bucket(BSpec::Amount(r, a));
    match (t.bp.as_str(), t.ident.as_str()) {
        ("Package", "publish_wasm_advanced") => {
            first_args(ManifestBuilder::new().publish_package_advanced(None, wat2wasm(mc_ledger::menu::MINI_WAT), single_function_package_definition("Test", "f"), metadata_init!(), OwnerRole::None).build())
        }
        ("NonFungibleResourceManager", "create") => first_args(
            ManifestBuilder::new().create_non_fungible_resource::<Vec<(NonFungibleLocalId, NfData)>, NfData>(OwnerRole::None, NonFungibleIdType::Integer, true, nf_roles(), metadata!(), None).build(),
        ),
        ("NonFungibleResourceManager", "create_with_initial_supply") => first_args(
            ManifestBuilder::new()
                .create_non_fungible_resource(OwnerRole::None, NonFungibleIdType::Integer, true, nf_roles(), metadata!(), Some(vec![(NonFungibleLocalId::integer(1), NfData { name: "one".into(), level: 1 })]))
                .build(),
        ),
        ("NonFungibleResourceManager", "update_non_fungible_data") if t.receiver_label == "nfall" => Some(mv2g(&to_mv(&(NonFungibleLocalId::integer(2), "level".to_string(), 7u32)))),
        ("NonFungibleResourceManager", "mint") if t.receiver_label == "nfall" => {
            Some(mv2g(&to_mv(&(indexmap!(NonFungibleLocalId::integer(77) => (NfData { name: "new".into(), level: 7 },)),))))
        }
        ("ConsensusManager", "next_round") => Some(mv2g(&to_mv(&ConsensusManagerNextRoundInput {
            round: Round::of(w.round + 1),
            proposer_timestamp_ms: 1_000_000,
            leader_proposal_history: LeaderProposalHistory { gap_round_leaders: vec![], current_leader: 0, is_fallback: false },
        }))),
        ("TwoResourcePool", "contribute") => Some(G::Tuple(vec![G::Tuple(vec![f(w.w.f18, dec!(1)), f(w.w.f2, dec!(1))])])),
        ("MultiResourcePool", "contribute") => Some(G::Tuple(vec![G::Array(MVK::Custom(ManifestCustomValueKind::Bucket), vec![f(w.w.f18, dec!(1)), f(w.w.f2, dec!(1)), f(w.w.f0, dec!(1))])])),
        ("TwoResourcePool", "instantiate") => Some(mv2g(&to_mv(&(OwnerRole::None, rule!(allow_all), (w.w.f18, w.w.f0), Option::<ManifestAddressReservation>::None)))),
        ("MultiResourcePool", "instantiate") => Some(mv2g(&to_mv(&(OwnerRole::None, rule!(allow_all), indexset![w.w.f18, w.w.f0], Option::<ManifestAddressReservation>::None)))),
        _ => None,
    }
}

fn gen_for<'a>(disc: &'a Discovery, w: &'a W11, pools: &'a Pools, t: &Target, d: Defaults, small: bool) -> Gen<'a> {
    let schema = disc.schemas.get(&(t.pkg, t.schema_hash)).unwrap_or_else(|| mc_core::machinery_error(&format!("C11: schema of {} not found", t.label())));
    Gen { schema, w, pools, d, target: (t.pkg, t.bp.clone()), small }
}

fn try_candidate(sim: &mut FSim, w: &W11, t: &Target, d: &Defaults, tree: &G, hand: bool) -> Option<(u32, Dflt)> {
    let (pre, call, _, _) = build_call(w, t, (d.res, d.amount), tree, &Input::Tree(tree.clone()))?;
    // the preamble alone must commit (the buckets / proofs of the default exist)
    let has_reservation = pre.iter().any(|i| matches!(i, InstructionV1::AllocateGlobalAddress(_)));
    if !pre.is_empty() && !has_reservation {
        let nbuckets = pre.iter().filter(|i| matches!(i, InstructionV1::TakeFromWorktop(_) | InstructionV1::TakeNonFungiblesFromWorktop(_))).count() as u32;
        let mut chk = pre.clone();
        // (not DROP_ALL_PROOFS: that would also drop the signature proofs the final deposit needs)
        chk.push(InstructionV1::DropNamedProofs(DropNamedProofs));
        chk.push(InstructionV1::DropAuthZoneRegularProofs(DropAuthZoneRegularProofs));
        for b in 0..nbuckets {
            chk.push(InstructionV1::ReturnToWorktop(ReturnToWorktop { bucket_id: ManifestBucket(b) }));
        }
        match execute(sim, full_manifest(w, &chk, None), proofs_of(w, Role::User)) {
            Outcome::Receipt(r) if is_success(&r) => {}
            Outcome::Receipt(r) => {
                if std::env::var("VERIF_C11_DUMP").is_ok() && d.res == w.w.f18 && !d.some {
                    println!("PREAMBLE-FAILS {} : {}", t.label(), mc_core::truncate(&failure_text(&r), 300));
                }
                return None;
            }
            _ => return None,
        }
    }
    let mut best: Option<(u32, Dflt)> = None;
    for role in [Role::User, Role::System] {
        let m = full_manifest(w, &pre, Some(call.clone()));
        let (score, class, success, reached, auth, refused_form) = match execute(sim, m, proofs_of(w, role)) {
            Outcome::Receipt(r) => {
                let s = is_success(&r);
                let reached = reached_native_code(&r);
                let txt = failure_text(&r);
                let refused = txt.contains("ReceiverNotMatch") || txt.contains("ObjectModuleDoesNotExist");
                (if s { 3 } else if reached { 2 } else { 1 }, receipt_class(&r), s, reached, is_auth_failure(&r), refused)
            }
            Outcome::NotExecutable(_) => (0, "not-executable".to_string(), false, false, false, false),
            Outcome::EscapedPanic(..) => (0, "escaped-panic".to_string(), false, false, false, false),
        };
        let cand = Dflt { tree: tree.clone(), defaults: d.clone(), role, class, success, reached, refused_form, hand_registered: hand };
        if best.as_ref().map(|(s, _)| score > *s).unwrap_or(true) {
            best = Some((score, cand));
        }
        if score == 3 || !auth {
            break;
        }
    }
    best
}

fn find_default(sim: &mut FSim, disc: &Discovery, w: &W11, pools: &Pools, t: &Target) -> Option<Dflt> {
    let mut best: Option<(u32, Dflt)> = None;
    let ctxs = contexts(w);
    if let Some(tree) = hand_default(w, t) {
        if let Some((score, d)) = try_candidate(sim, w, t, &ctxs[0], &tree, true) {
            if score == 3 {
                return Some(d);
            }
            best = Some((score, d));
        }
    }
    for d in ctxs {
        let gen = gen_for(disc, w, pools, t, d.clone(), true);
        let tree = gen.default(t.type_id, 0)?;
        if let Some((score, cand)) = try_candidate(sim, w, t, &d, &tree, false) {
            if score == 3 {
                return Some(cand);
            }
            if best.as_ref().map(|(s, _)| score > *s).unwrap_or(true) {
                best = Some((score, cand));
            }
        }
    }
    best.map(|b| b.1)
}

// ------------------------------------------------------------------------------------------------
// work items
// ------------------------------------------------------------------------------------------------

#[derive(Clone, Debug)]
enum Input {
    Tree(G),
    /// manifest-SBOR bytes of the argument value (already known to decode)
    Bytes(Vec<u8>),
}

#[derive(Clone, Debug)]
struct Item {
    target: usize,
    state: usize,
    input: Input,
    family: &'static str,
}

/// thorough tier: 2-position deviations only for entry points whose 1-position set has at most this many members
const DEV2_MAX_DEV1: usize = 60;
/// safety net: items not started before this many seconds are skipped and the run reports exhaustive:false
const WALL_CAP_S: f64 = 1500.0;

const QUICK_ALPHABET: [u8; 12] = [0x00, 0x01, 0x02, 0x07, 0x0c, 0x20, 0x21, 0x22, 0x23, 0x5c, 0x80, 0xff];
const THOROUGH_ALPHABET: [u8; 40] = [
    0x00, 0x01, 0x02, 0x03, 0x04, 0x05, 0x06, 0x07, 0x08, 0x09, 0x0a, 0x0b, 0x0c, 0x0d, 0x10, 0x1f, 0x20, 0x21, 0x22, 0x23, 0x24, 0x3f, 0x40, 0x4d, 0x5c, 0x7f, 0x80, 0x81, 0x82, 0x83, 0x84, 0x85, 0x86,
    0x87, 0x88, 0x90, 0xa0, 0xc0, 0xfe, 0xff,
];

#[allow(clippy::too_many_arguments)]
fn case_json(w: &W11, t: &Target, state: usize, role: Role, preamble: &[InstructionV1], call: &InstructionV1, shown: &str, args_hex: &str, family: &str) -> Value {
    let m = full_manifest(w, preamble, Some(call.clone()));
    json!({
        "target": t.label(),
        "state": state,
        "role": format!("{role:?}"),
        "family": family,
        "args": mc_core::truncate(shown, 1500),
        "args_sbor": args_hex,
        "instructions_manifest_sbor": manifest_encode(&m.instructions).map(|b| mc_core::hex(&b)).unwrap_or_default(),
    })
}

struct Shared<'a> {
    w: &'a W11,
    disc: &'a Discovery,
    dflts: &'a [Option<Dflt>],
}

fn run_item(sh: &Shared, sim: &mut FSim, it: &Item, l: &mut Local) {
    let t = &sh.disc.targets[it.target];
    let d = sh.dflts[it.target].as_ref().unwrap();
    let dfl = (d.defaults.res, d.defaults.amount);
    let Some((preamble, call, shown, args_hex)) = build_call(sh.w, t, dfl, &d.tree, &it.input) else {
        l.info("generated tuple not encodable as SBOR (mixed element kinds): skipped");
        return;
    };
    l.eval();
    let cj = || case_json(sh.w, t, it.state, d.role, &preamble, &call, &shown, &args_hex, it.family);
    let m = full_manifest(sh.w, &preamble, Some(call.clone()));
    match execute(sim, m, proofs_of(sh.w, d.role)) {
        Outcome::Receipt(r) => {
            if let Some((key, what)) = trapped(&r) {
                l.violation(key, format!("{}: {what}", t.label()), cj());
                l.class("VIOLATION:trapped-panic-in-receipt");
                return;
            }
            let cls = match &r.result {
                TransactionResult::Commit(c) => match &c.outcome {
                    TransactionOutcome::Success(_) => "commit-success".to_string(),
                    TransactionOutcome::Failure(e) => format!("commit-failure:{}", variant_path(&format!("{e:?}"), 2)),
                },
                TransactionResult::Reject(rj) => format!("reject:{}", variant_path(&format!("{:?}", rj.reason), 3)),
                TransactionResult::Abort(a) => format!("abort:{}", variant_path(&format!("{:?}", a.reason), 2)),
            };
            l.class(&cls);
            l.sample(|| json!({"case": cj(), "outcome": receipt_class(&r)}));
        }
        Outcome::NotExecutable(_) => {
            l.class("not-executable(simulator could not prepare the manifest)");
        }
        Outcome::EscapedPanic(p, loc) => {
            l.violation(format!("panic@{loc}"), format!("{}: panic escaped the engine: {}", t.label(), mc_core::truncate(&p, 300)), cj());
            l.class("VIOLATION:escaped-panic");
        }
    }
}


// ------------------------------------------------------------------------------------------------
// typed manifest instructions (worktop / auth zone / bucket / proof blueprints behind the processor)
// ------------------------------------------------------------------------------------------------

/// Every resource-handling manifest instruction with every (resource, amount / id-set) of small alphabets, after a
/// fixed preamble that leaves 1 `fall` + nfall #2,#3 on the worktop, bucket 0 = 1 `fall`, bucket 1 = nfall #4, and a
/// `fall` proof + an nfall proof in the auth zone (proof 0 = popped `fall` proof).
fn instruction_cases(w: &W11) -> Vec<(String, Vec<InstructionV1>)> {
    let a = w.w.a.addr;
    let acct = |m: &str, args: ManifestValue| InstructionV1::CallMethod(CallMethod { address: ManifestGlobalAddress::Static(a.into()), method_name: m.to_string(), args });
    let ids = |v: &[u64]| v.iter().map(|i| NonFungibleLocalId::integer(*i)).collect::<Vec<_>>();
    let pre: Vec<InstructionV1> = vec![
        acct("withdraw", to_mv(&(w.fall, dec!(2)))),
        acct("withdraw_non_fungibles", to_mv(&(w.nfall, ids(&[2, 3, 4])))),
        InstructionV1::TakeFromWorktop(TakeFromWorktop { resource_address: w.fall, amount: dec!(1) }),
        InstructionV1::TakeNonFungiblesFromWorktop(TakeNonFungiblesFromWorktop { resource_address: w.nfall, ids: ids(&[4]) }),
        acct("create_proof_of_amount", to_mv(&(w.fall, dec!(1)))),
        acct("create_proof_of_non_fungibles", to_mv(&(w.nfall, ids(&[1])))),
        acct("create_proof_of_amount", to_mv(&(w.fall, dec!(3)))),
        InstructionV1::PopFromAuthZone(PopFromAuthZone),
    ];
    let ghost = {
        let mut b = [0x5au8; 30];
        b[0] = EntityType::GlobalFungibleResourceManager as u8;
        ResourceAddress::new_or_panic(b)
    };
    let resources = [w.fall, w.nfall, XRD, w.w.f0, w.x.claim_nft, ghost];
    let decimals = [dec!(1), Decimal::ZERO, dec!(-1), Decimal::from_attos(I192::ONE), dec!("0.5"), dec!(2), dec!(3), dec!(1000000), Decimal::MAX, Decimal::MIN];
    let idsets: Vec<Vec<NonFungibleLocalId>> = vec![
        vec![],
        ids(&[2]),
        ids(&[2, 3]),
        ids(&[2, 2]),
        ids(&[4]),
        ids(&[99]),
        vec![NonFungibleLocalId::string("a").unwrap()],
        vec![NonFungibleLocalId::integer(2), NonFungibleLocalId::ruid([0u8; 32])],
        (0..70u64).map(NonFungibleLocalId::integer).collect(),
    ];
    let buckets = [ManifestBucket(0), ManifestBucket(1), ManifestBucket(77)];
    let proofs = [ManifestProof(0), ManifestProof(77)];
    let mut out: Vec<(String, InstructionV1)> = vec![];
    for r in resources {
        for d in decimals {
            out.push((format!("TakeFromWorktop({r:?},{d})"), InstructionV1::TakeFromWorktop(TakeFromWorktop { resource_address: r, amount: d })));
            out.push((format!("AssertWorktopContains({r:?},{d})"), InstructionV1::AssertWorktopContains(AssertWorktopContains { resource_address: r, amount: d })));
            out.push((format!("CreateProofFromAuthZoneOfAmount({r:?},{d})"), InstructionV1::CreateProofFromAuthZoneOfAmount(CreateProofFromAuthZoneOfAmount { resource_address: r, amount: d })));
        }
        for i in &idsets {
            let tag = format!("{} ids", i.len());
            out.push((format!("TakeNonFungiblesFromWorktop({r:?},{tag}:{:?})", i.first()), InstructionV1::TakeNonFungiblesFromWorktop(TakeNonFungiblesFromWorktop { resource_address: r, ids: i.clone() })));
            out.push((
                format!("AssertWorktopContainsNonFungibles({r:?},{tag}:{:?})", i.first()),
                InstructionV1::AssertWorktopContainsNonFungibles(AssertWorktopContainsNonFungibles { resource_address: r, ids: i.clone() }),
            ));
            out.push((
                format!("CreateProofFromAuthZoneOfNonFungibles({r:?},{tag}:{:?})", i.first()),
                InstructionV1::CreateProofFromAuthZoneOfNonFungibles(CreateProofFromAuthZoneOfNonFungibles { resource_address: r, ids: i.clone() }),
            ));
        }
        out.push((format!("TakeAllFromWorktop({r:?})"), InstructionV1::TakeAllFromWorktop(TakeAllFromWorktop { resource_address: r })));
        out.push((format!("AssertWorktopContainsAny({r:?})"), InstructionV1::AssertWorktopContainsAny(AssertWorktopContainsAny { resource_address: r })));
        out.push((format!("CreateProofFromAuthZoneOfAll({r:?})"), InstructionV1::CreateProofFromAuthZoneOfAll(CreateProofFromAuthZoneOfAll { resource_address: r })));
    }
    for b in buckets {
        for d in decimals {
            out.push((format!("CreateProofFromBucketOfAmount({b:?},{d})"), InstructionV1::CreateProofFromBucketOfAmount(CreateProofFromBucketOfAmount { bucket_id: b, amount: d })));
        }
        for i in &idsets {
            out.push((
                format!("CreateProofFromBucketOfNonFungibles({b:?},{} ids:{:?})", i.len(), i.first()),
                InstructionV1::CreateProofFromBucketOfNonFungibles(CreateProofFromBucketOfNonFungibles { bucket_id: b, ids: i.clone() }),
            ));
        }
        out.push((format!("CreateProofFromBucketOfAll({b:?})"), InstructionV1::CreateProofFromBucketOfAll(CreateProofFromBucketOfAll { bucket_id: b })));
        out.push((format!("BurnResource({b:?})"), InstructionV1::BurnResource(BurnResource { bucket_id: b })));
        out.push((format!("ReturnToWorktop({b:?})"), InstructionV1::ReturnToWorktop(ReturnToWorktop { bucket_id: b })));
    }
    for p in proofs {
        out.push((format!("CloneProof({p:?})"), InstructionV1::CloneProof(CloneProof { proof_id: p })));
        out.push((format!("DropProof({p:?})"), InstructionV1::DropProof(DropProof { proof_id: p })));
        out.push((format!("PushToAuthZone({p:?})"), InstructionV1::PushToAuthZone(PushToAuthZone { proof_id: p })));
    }
    out.push(("PopFromAuthZone".into(), InstructionV1::PopFromAuthZone(PopFromAuthZone)));
    out.push(("DropAuthZoneProofs".into(), InstructionV1::DropAuthZoneProofs(DropAuthZoneProofs)));
    out.push(("DropAuthZoneRegularProofs".into(), InstructionV1::DropAuthZoneRegularProofs(DropAuthZoneRegularProofs)));
    out.push(("DropAuthZoneSignatureProofs".into(), InstructionV1::DropAuthZoneSignatureProofs(DropAuthZoneSignatureProofs)));
    out.push(("DropNamedProofs".into(), InstructionV1::DropNamedProofs(DropNamedProofs)));
    out.push(("DropAllProofs".into(), InstructionV1::DropAllProofs(DropAllProofs)));
    let fee = InstructionV1::CallMethod(CallMethod { address: ManifestGlobalAddress::Static(w.w.b.addr.into()), method_name: "lock_fee".into(), args: to_mv(&(dec!(500),)) });
    let tail = acct("deposit_batch", ManifestValue::Tuple { fields: vec![ManifestValue::Custom { value: ManifestCustomValue::Expression(ManifestExpression::EntireWorktop) }] });
    let mut cases: Vec<(String, Vec<InstructionV1>)> = out
        .into_iter()
        .map(|(label, x)| {
            let mut v = vec![fee.clone()];
            v.extend(pre.iter().cloned());
            v.push(x);
            // leftovers: proofs are dropped (not the signature proofs), then everything on the worktop is deposited
            v.push(InstructionV1::DropNamedProofs(DropNamedProofs));
            v.push(InstructionV1::DropAuthZoneRegularProofs(DropAuthZoneRegularProofs));
            v.push(tail.clone());
            (label, v)
        })
        .collect();
    // minimal auth zones: every ordered pair of {fungible proof, non-fungible proof} (and singletons), then one
    // composition instruction
    let pf = acct("create_proof_of_amount", to_mv(&(w.fall, dec!(1))));
    let pn = acct("create_proof_of_non_fungibles", to_mv(&(w.nfall, ids(&[1]))));
    let zones: Vec<(&str, Vec<InstructionV1>)> = vec![("[F]", vec![pf.clone()]), ("[N]", vec![pn.clone()]), ("[F,N]", vec![pf.clone(), pn.clone()]), ("[N,F]", vec![pn.clone(), pf.clone()])];
    for (zl, zone) in zones {
        let compositions: Vec<(String, InstructionV1)> = vec![
            ("CreateProofFromAuthZoneOfAmount(fall,1)".into(), InstructionV1::CreateProofFromAuthZoneOfAmount(CreateProofFromAuthZoneOfAmount { resource_address: w.fall, amount: dec!(1) })),
            ("CreateProofFromAuthZoneOfAmount(nfall,1)".into(), InstructionV1::CreateProofFromAuthZoneOfAmount(CreateProofFromAuthZoneOfAmount { resource_address: w.nfall, amount: dec!(1) })),
            ("CreateProofFromAuthZoneOfAll(fall)".into(), InstructionV1::CreateProofFromAuthZoneOfAll(CreateProofFromAuthZoneOfAll { resource_address: w.fall })),
            ("CreateProofFromAuthZoneOfAll(nfall)".into(), InstructionV1::CreateProofFromAuthZoneOfAll(CreateProofFromAuthZoneOfAll { resource_address: w.nfall })),
            (
                "CreateProofFromAuthZoneOfNonFungibles(nfall,[1])".into(),
                InstructionV1::CreateProofFromAuthZoneOfNonFungibles(CreateProofFromAuthZoneOfNonFungibles { resource_address: w.nfall, ids: ids(&[1]) }),
            ),
        ];
        for (cl, c) in compositions {
            let mut v = vec![fee.clone()];
            v.extend(zone.iter().cloned());
            v.push(c);
            cases.push((format!("minimal auth zone {zl}: {cl}"), v));
        }
    }
    cases
}

fn run_instruction_case(w: &W11, sim: &mut FSim, state: usize, label: &str, ins: &[InstructionV1], l: &mut Local) {
    l.eval();
    let m = TransactionManifestV1 { instructions: ins.to_vec(), blobs: Default::default(), object_names: Default::default() };
    let cj = || json!({"target": format!("instruction {label}"), "state": state, "role": "User", "family": "typed-instruction", "instructions_manifest_sbor": manifest_encode(&ins.to_vec()).map(|b| mc_core::hex(&b)).unwrap_or_default()});
    match execute(sim, m, proofs_of(w, Role::User)) {
        Outcome::Receipt(r) => {
            if let Some((key, what)) = trapped(&r) {
                l.violation(key, format!("instruction {label}: {what}"), cj());
                l.class("VIOLATION:trapped-panic-in-receipt");
                return;
            }
            l.class(&format!("instruction:{}", variant_path(&receipt_class(&r), 2)));
        }
        Outcome::NotExecutable(_) => l.class("not-executable(simulator could not prepare the manifest)"),
        Outcome::EscapedPanic(p, loc) => {
            l.violation(format!("panic@{loc}"), format!("instruction {label}: panic escaped the engine: {}", mc_core::truncate(&p, 300)), cj());
            l.class("VIOLATION:escaped-panic");
        }
    }
}

thread_local! {
    static SIMS: std::cell::RefCell<Vec<Option<FSim>>> = const { std::cell::RefCell::new(Vec::new()) };
}

fn with_sim<R>(snaps: &[Snap], state: usize, f: impl FnOnce(&mut FSim) -> R) -> R {
    SIMS.with(|s| {
        let mut s = s.borrow_mut();
        if s.len() < snaps.len() {
            s.resize_with(snaps.len(), || None);
        }
        if s[state].is_none() {
            s[state] = Some(fsim_from(&snaps[state]));
        }
        f(s[state].as_mut().unwrap())
    })
}

pub fn run(ctx: Ctx) -> ! {
    // ---- base state and the two non-initial states
    let mut sim = fsim_new();
    let w = build_w11(&mut sim);
    let snap0 = sim.create_snapshot();
    let mut snaps = vec![snap0.clone()];
    for which in [1usize, 2] {
        let mut s = fsim_from(&snap0);
        build_state(&mut s, &w, which);
        snaps.push(s.create_snapshot());
    }
    let pools = pools(&w);
    let disc = discover(&sim, &w);

    // ---- replay
    if let Some(case) = ctx.read_replay_case() {
        let hex = case.get("instructions_manifest_sbor").and_then(|x| x.as_str()).unwrap_or("");
        let ins: Vec<InstructionV1> = manifest_decode(&mc_core::unhex(hex)).unwrap_or_else(|e| mc_core::machinery_error(&format!("bad instructions in replay: {e:?}")));
        let state = case.get("state").and_then(|x| x.as_u64()).unwrap_or(0) as usize;
        let role = if case.get("role").and_then(|x| x.as_str()) == Some("System") { Role::System } else { Role::User };
        let m = TransactionManifestV1 { instructions: ins, blobs: Default::default(), object_names: Default::default() };
        let mut s = fsim_from(&snaps[state.min(snaps.len() - 1)]);
        let mut l = Local::new();
        l.eval();
        match execute(&mut s, m, proofs_of(&w, role)) {
            Outcome::Receipt(r) => {
                println!("REPLAY receipt: {}", mc_core::truncate(&format!("{} {}", receipt_class(&r), failure_text(&r)), 2000));
                if let Some((key, what)) = trapped(&r) {
                    l.violation(key, what, case.clone());
                }
            }
            Outcome::NotExecutable(p) => println!("REPLAY: not executable: {p}"),
            Outcome::EscapedPanic(p, loc) => {
                println!("REPLAY: escaped panic at {loc}: {p}");
                l.violation(format!("panic@{loc}"), p, case.clone());
            }
        }
        l.class("replay");
        ctx.merge(l);
        ctx.finish(Level::Exploration, "replay", 1, true, Map::new(), &[]);
    }

    // ---- defaults (automatic search, in parallel over targets)
    let idx: Vec<usize> = (0..disc.targets.len()).collect();
    let dflts: Vec<Option<Dflt>> = par_map(ctx.threads, &idx, |i| with_sim(&snaps, 0, |s| find_default(s, &disc, &w, &pools, &disc.targets[*i])));

    if std::env::var("VERIF_C11_DUMP").is_ok() {
        for (t, d) in disc.targets.iter().zip(dflts.iter()) {
            match d {
                Some(d) => println!("DEFAULT {:60} {:?} ok={} reached={} hand={} refused={} {}", t.label(), d.role, d.success, d.reached, d.hand_registered, d.refused_form, d.class),
                None => println!("DEFAULT {:60} NONE", t.label()),
            }
        }
        for (bp, id, why) in &disc.not_driven {
            println!("NOT-DRIVEN {bp}::{id}: {why}");
        }
    }

    // ---- work items
    let quick = ctx.quick();
    let mut items: Vec<Item> = vec![];
    let mut positions_total = 0u64;
    let mut per_target_counts: Vec<(String, usize, usize)> = vec![];
    let alphabet: &[u8] = if quick { &QUICK_ALPHABET } else { &THOROUGH_ALPHABET };
    let mut undecodable_mutations = 0u64;
    for (ti, t) in disc.targets.iter().enumerate() {
        let Some(d) = &dflts[ti] else { continue };
        let gen = gen_for(&disc, &w, &pools, t, d.defaults.clone(), quick);
        positions_total += gen.positions(t.type_id, &d.tree) as u64;
        // (a) deviations
        if d.refused_form {
            for (si, _) in snaps.iter().enumerate() {
                items.push(Item { target: ti, state: si, input: Input::Tree(d.tree.clone()), family: "default" });
            }
            per_target_counts.push((t.label(), 1, 0));
            continue;
        }
        let dev1 = gen.deviations(t.type_id, &d.tree, 1, 0);
        let mut trees: Vec<G> = vec![d.tree.clone()];
        trees.extend(dev1.iter().cloned());
        let n1 = trees.len();
        if !quick && dev1.len() <= DEV2_MAX_DEV1 {
            for g in gen.deviations(t.type_id, &d.tree, 2, 0) {
                trees.push(g);
            }
            // the ≤2 set contains the ≤1 set again: drop duplicates
            let mut seen: Vec<Vec<u8>> = vec![];
            let mut uniq = vec![];
            for g in trees {
                let key = format!("{g:?}").into_bytes();
                let fp = mc_core::fp128(&key);
                if !seen.contains(&fp) {
                    seen.push(fp);
                    uniq.push(g);
                }
            }
            trees = uniq;
        }
        for (si, _) in snaps.iter().enumerate() {
            for (gi, g) in trees.iter().enumerate() {
                let family = if gi == 0 { "default" } else if gi < n1 { "1-position-deviation" } else { "2-position-deviation" };
                // 2-position deviations only in the base state
                if si > 0 && gi >= n1 {
                    continue;
                }
                items.push(Item { target: ti, state: si, input: Input::Tree(g.clone()), family });
            }
        }
        // (b) byte mutations of the default's manifest SBOR
        let mut nmut = 0usize;
        let default_bytes = if t.is_fwd() { scrypto_encode(&g2s(&d.tree)).ok() } else { encodable(&lower(&d.tree, w.w.a.addr, (d.defaults.res, d.defaults.amount)).value) };
        if let Some(bytes) = default_bytes {
            let mut seen: BTreeSet<Vec<u8>> = BTreeSet::new();
            mc_core::gen::mutations(&bytes, alphabet, |m| {
                if m == bytes.as_slice() || !seen.insert(m.to_vec()) {
                    return;
                }
                if t.is_fwd() || manifest_decode::<ManifestValue>(m).is_ok() {
                    nmut += 1;
                    for (si, _) in snaps.iter().enumerate() {
                        if si > 0 && quick {
                            continue;
                        }
                        items.push(Item { target: ti, state: si, input: Input::Bytes(m.to_vec()), family: "byte-mutation" });
                    }
                } else {
                    undecodable_mutations += 1;
                }
            });
        }
        per_target_counts.push((t.label(), trees.len(), nmut));
    }
    ctx.info("byte mutations that no longer decode as a manifest value (cannot be put into a manifest; not executed)", undecodable_mutations);

    if std::env::var("VERIF_C11_DUMP").is_ok() {
        for (l, a, b) in &per_target_counts {
            println!("COUNTS {l:60} trees={a} mutations={b}");
        }
        println!("TOTAL items {}", items.len());
    }

    // ---- run
    let sh = Shared { w: &w, disc: &disc, dflts: &dflts };
    let skipped = std::sync::atomic::AtomicU64::new(0);
    par_for(&ctx, &items, |it, l| {
        if ctx.elapsed_s() > WALL_CAP_S {
            skipped.fetch_add(1, std::sync::atomic::Ordering::Relaxed);
            return;
        }
        with_sim(&snaps, it.state, |s| run_item(&sh, s, it, l))
    });
    let skipped = skipped.load(std::sync::atomic::Ordering::Relaxed);
    if skipped > 0 {
        ctx.note(format!("wall cap of {WALL_CAP_S} s hit: {skipped} of {} generated inputs were not executed", items.len()));
    }

    // ---- typed manifest instructions, from every state
    let icases = instruction_cases(&w);
    let iitems: Vec<(usize, usize)> = (0..snaps.len()).flat_map(|s| (0..icases.len()).map(move |i| (s, i))).collect();
    par_for(&ctx, &iitems, |(s, i), l| with_sim(&snaps, *s, |sim| run_instruction_case(&w, sim, *s, &icases[*i].0, &icases[*i].1, l)));

    // ---- evidence
    let driven: BTreeSet<(String, String)> = disc.targets.iter().zip(dflts.iter()).filter(|(_, d)| d.is_some()).map(|(t, _)| (t.bp.clone(), t.ident.clone())).collect();
    let default_ok = disc.targets.iter().zip(dflts.iter()).filter(|(_, d)| d.as_ref().map(|d| d.success).unwrap_or(false)).count();
    let default_reached = disc.targets.iter().zip(dflts.iter()).filter(|(_, d)| d.as_ref().map(|d| d.reached).unwrap_or(false)).count();
    let mut per_bp: BTreeMap<String, (u64, u64, u64)> = BTreeMap::new();
    for (t, d) in disc.targets.iter().zip(dflts.iter()) {
        let e = per_bp.entry(t.bp.clone()).or_default();
        e.0 += 1;
        if let Some(d) = d {
            if d.success {
                e.1 += 1;
            }
            if d.reached {
                e.2 += 1;
            }
        }
    }
    let not_ok: Vec<String> =
        disc.targets.iter().zip(dflts.iter()).filter(|(_, d)| !d.as_ref().map(|d| d.success).unwrap_or(false)).map(|(t, d)| format!("{} -> {}", t.label(), d.as_ref().map(|d| d.class.clone()).unwrap_or("no default".into()))).collect();
    let infos_reached = {
        // measured: executions whose outcome shows that the native function body ran (success or an application error of the blueprint)
        // (read back from the merged counters)
        0u64
    };
    let _ = infos_reached;
    let mut cov = Map::new();
    cov.insert("programs".into(), json!(disc.targets.len() as u64));
    cov.insert("native_blueprints_in_genesis".into(), json!(disc.blueprints.iter().collect::<Vec<_>>()));
    cov.insert("entry_points_in_genesis".into(), json!(disc.entry_points as u64));
    cov.insert("entry_points_driven".into(), json!(driven.len() as u64));
    cov.insert("invocation_forms".into(), json!(disc.targets.len() as u64));
    cov.insert("defaults_committing_successfully".into(), json!(default_ok as u64));
    cov.insert("defaults_reaching_native_code".into(), json!(default_reached as u64));
    cov.insert(
        "per_blueprint".into(),
        Value::Object(per_bp.iter().map(|(k, v)| (k.clone(), json!({"invocation_forms": v.0, "default_succeeds": v.1, "default_reaches_native_code": v.2}))).collect()),
    );
    cov.insert("defaults_not_succeeding".into(), json!(not_ok));
    cov.insert("entry_points_not_driven".into(), json!(disc.not_driven.iter().map(|(b, i, w)| format!("{b}::{i}: {w}")).collect::<Vec<_>>()));
    cov.insert("typed_instruction_cases_per_state".into(), json!(icases.len() as u64));
    cov.insert("state_count".into(), json!(snaps.len() as u64));
    cov.insert("state_descriptions".into(), json!(["base", "after 2 epoch changes + frozen vaults + recovery initiated + primary role locked", "restrictive account deposit rules + validator registered/unregistered, not accepting stake + burnt nf + emptied pool"]));
    cov.insert("default_tree_positions".into(), json!(positions_total));
    cov.insert("mutation_alphabet_size".into(), json!(alphabet.len() as u64));
    cov.insert("deviation_bound".into(), json!(if quick { "<= 1 node position".to_string() } else { format!("<= 2 node positions (base state) where the <=1 set has <= {DEV2_MAX_DEV1} members, else <= 1") }));
    cov.insert("inputs_generated".into(), json!(items.len() as u64));
    cov.insert("inputs_skipped_by_wall_cap".into(), json!(skipped));
    cov.insert("hand_registered_defaults".into(), json!(disc.targets.iter().zip(dflts.iter()).filter(|(_, d)| d.as_ref().map(|d| d.hand_registered).unwrap_or(false)).map(|(t, _)| t.label()).collect::<Vec<_>>()));
    let classes = ctx.classes();
    let nontrivial: u64 = classes.iter().filter(|(k, _)| k.starts_with("commit-success") || k.starts_with("commit-failure:ApplicationError")).map(|(_, v)| *v).sum();
    ctx.finish(
        Level::Exploration,
        "every generated input is distinct by construction (distinct trees / distinct mutated byte strings per entry point and state); non-trivial = the call passed argument decoding, schema validation and auth, i.e. the native function body ran (outcome success or an ApplicationError of the blueprint)",
        nontrivial,
        skipped == 0,
        cov,
        &[
            "transactions are test transactions (no signature validation); initial proofs = signatures of accounts A and B and the two validator owner badges; entry points whose default is refused for missing authority are retried with the validator/protocol system proofs",
            "executions are not committed (execute_transaction_no_commit): the commit path of the simulator is not part of the subject",
            "worktop / auth zone methods and non-direct vault methods are reached only through the typed manifest instructions of the preambles, not with raw payloads",
            "the panic location used in violation keys is the last panic observed on the executing thread",
        ],
    )
}
