//! C11 base state: one receiver for every native blueprint that can be addressed from a manifest, plus the
//! forwarding probe (`Fwd`) that lets a transaction send raw Scrypto-SBOR payloads to methods of buckets and proofs
//! (internal objects that a manifest can only reach through typed instructions).
use mc_ledger::menu::*;
use mc_ledger::*;
use radix_engine::errors::{ApplicationError, RuntimeError};
use radix_engine::kernel::kernel_api::{KernelNodeApi, KernelSubstateApi};
use radix_engine::system::system_callback::SystemLockData;
use radix_engine::vm::{OverridePackageCode, VmApi, VmInvoke};
use radix_engine_interface::api::{AttachedModuleId, SystemApi};
use radix_engine_interface::blueprints::package::PackageDefinition;
use radix_native_sdk::modules::metadata::Metadata;
use radix_native_sdk::modules::role_assignment::RoleAssignment;
use radix_native_sdk::modules::royalty::ComponentRoyalty;

pub const FWD_CODE_ID: u64 = 1111;
pub const FWD_BP: &str = "Fwd";

/// Forwarder: `fwd(own, method, args)` calls `method` on the owned bucket/proof with the raw SBOR `args` and returns
/// `(result, own)`; `new_component()` globalizes an empty component with metadata, role assignment (owner
/// allow_all) and royalty modules (a receiver for the royalty module methods whose auth can be satisfied).
#[derive(Clone)]
pub struct Fwd;

impl VmInvoke for Fwd {
    fn invoke<Y: SystemApi<RuntimeError> + KernelNodeApi + KernelSubstateApi<SystemLockData>, V: VmApi>(
        &mut self,
        export_name: &str,
        input: &IndexedScryptoValue,
        api: &mut Y,
        _vm_api: &V,
    ) -> Result<IndexedScryptoValue, RuntimeError> {
        let dec = |e| RuntimeError::ApplicationError(ApplicationError::InputDecodeError(e));
        match export_name {
            "fwd" => {
                let (own, method, args): (Own, String, Vec<u8>) = input.as_typed().map_err(dec)?;
                let rtn = api.call_method(own.as_node_id(), &method, args)?;
                let v: ScryptoValue = scrypto_decode(&rtn).map_err(dec)?;
                Ok(IndexedScryptoValue::from_typed(&(v, own)))
            }
            // same for a proof; the proof is dropped afterwards (a proof that crossed a barrier is restricted and
            // cannot be handed back to the transaction's auth zone)
            "fwd_proof" => {
                let (own, method, args): (Own, String, Vec<u8>) = input.as_typed().map_err(dec)?;
                let rtn = api.call_method(own.as_node_id(), &method, args)?;
                let v: ScryptoValue = scrypto_decode(&rtn).map_err(dec)?;
                let proof = Proof(own);
                radix_native_sdk::resource::NativeProof::drop(proof, api)?;
                Ok(IndexedScryptoValue::from_typed(&(v,)))
            }
            "new_component" => {
                let metadata = Metadata::create(api)?;
                let access_rules = RoleAssignment::create(OwnerRole::Updatable(AccessRule::AllowAll), indexmap!(), api)?;
                let royalty = ComponentRoyalty::create(ComponentRoyaltyConfig::default(), api)?;
                let node_id = api.new_simple_object(FWD_BP, indexmap!())?;
                let addr = api.globalize(
                    node_id,
                    indexmap!(
                        AttachedModuleId::Metadata => metadata.0,
                        AttachedModuleId::RoleAssignment => access_rules.0.0,
                        AttachedModuleId::Royalty => royalty.0,
                    ),
                    None,
                )?;
                Ok(IndexedScryptoValue::from_typed(&addr))
            }
            _ => Ok(IndexedScryptoValue::from_typed(&())),
        }
    }
}

pub type FExt = OverridePackageCode<Fwd>;
pub type FSim = Sim<FExt>;

pub fn fsim_new() -> FSim {
    LedgerSimulatorBuilder::new().with_custom_extension(OverridePackageCode::new(FWD_CODE_ID, Fwd)).without_kernel_trace().without_receipt_substate_check().build()
}

pub fn fsim_from(snap: &Snap) -> FSim {
    LedgerSimulatorBuilder::new()
        .with_custom_extension(OverridePackageCode::new(FWD_CODE_ID, Fwd))
        .without_kernel_trace()
        .without_receipt_substate_check()
        .build_from_snapshot(snap.clone())
}

#[derive(Clone, Debug)]
pub struct W11 {
    pub w: World,
    pub x: Extras,
    pub pk_a: Secp256k1PublicKey,
    /// fungible / non-fungible resource with every role set to allow_all (mint, burn, freeze, recall, withdraw,
    /// deposit, data update) and an allow_all owner; A holds 995 / #1..#4, B holds 5 / #5
    pub fall: ResourceAddress,
    pub nfall: ResourceAddress,
    pub identity: ComponentAddress,
    pub own_validator: ComponentAddress,
    pub ac: ComponentAddress,
    pub pool2: ComponentAddress,
    pub pool2_unit: ResourceAddress,
    pub poolm: ComponentAddress,
    pub poolm_unit: ResourceAddress,
    pub locker: ComponentAddress,
    pub wat_pkg: PackageAddress,
    pub fwd_pkg: PackageAddress,
    pub royalty_comp: ComponentAddress,
    pub vault_f: InternalAddress,
    pub vault_nf: InternalAddress,
    pub vault_rc: InternalAddress,
    /// stake unit / claim NFT of the own validator
    pub own_stake_unit: ResourceAddress,
    pub own_claim_nft: ResourceAddress,
    /// current consensus round in the base state
    pub round: u64,
    /// blobs attached to every transaction (the code of the tiny WASM package)
    pub blobs: IndexMap<Hash, Vec<u8>>,
    /// a key-value store node (internal, not a vault)
    pub kv_store: InternalAddress,
    /// proofs a user could hold: signatures of A and B, the owner badges of the two validators
    pub user_proofs: Vec<NonFungibleGlobalId>,
    /// the proofs of a validator (round update) / protocol transaction
    pub system_proofs: Vec<NonFungibleGlobalId>,
}

fn ok(r: TransactionReceipt, what: &str) -> TransactionReceipt {
    if !is_success(&r) {
        mc_core::machinery_error(&format!("C11 world setup step '{what}' failed: {}", failure_text(&r)));
    }
    r
}

fn all_fungible_roles() -> FungibleResourceRoles {
    FungibleResourceRoles {
        mint_roles: mint_roles! { minter => rule!(allow_all); minter_updater => rule!(allow_all); },
        burn_roles: burn_roles! { burner => rule!(allow_all); burner_updater => rule!(allow_all); },
        freeze_roles: freeze_roles! { freezer => rule!(allow_all); freezer_updater => rule!(allow_all); },
        recall_roles: recall_roles! { recaller => rule!(allow_all); recaller_updater => rule!(allow_all); },
        withdraw_roles: withdraw_roles! { withdrawer => rule!(allow_all); withdrawer_updater => rule!(allow_all); },
        deposit_roles: deposit_roles! { depositor => rule!(allow_all); depositor_updater => rule!(allow_all); },
    }
}

fn all_non_fungible_roles() -> NonFungibleResourceRoles {
    NonFungibleResourceRoles {
        mint_roles: mint_roles! { minter => rule!(allow_all); minter_updater => rule!(allow_all); },
        burn_roles: burn_roles! { burner => rule!(allow_all); burner_updater => rule!(allow_all); },
        freeze_roles: freeze_roles! { freezer => rule!(allow_all); freezer_updater => rule!(allow_all); },
        recall_roles: recall_roles! { recaller => rule!(allow_all); recaller_updater => rule!(allow_all); },
        withdraw_roles: withdraw_roles! { withdrawer => rule!(allow_all); withdrawer_updater => rule!(allow_all); },
        deposit_roles: deposit_roles! { depositor => rule!(allow_all); depositor_updater => rule!(allow_all); },
        non_fungible_data_update_roles: non_fungible_data_update_roles! { non_fungible_data_updater => rule!(allow_all); non_fungible_data_updater_updater => rule!(allow_all); },
    }
}

pub fn validator_badge(v: ComponentAddress) -> NonFungibleGlobalId {
    NonFungibleGlobalId::new(VALIDATOR_OWNER_BADGE, NonFungibleLocalId::bytes(v.as_node_id().0).unwrap())
}

pub fn build_w11(sim: &mut FSim) -> W11 {
    let w = build_world(sim);
    let x = build_extras(sim, &w, w.f18);
    let a = w.a.addr;
    let b = w.b.addr;
    let pk_a = w.a.pk;
    let sa = vec![w.a.sig.clone()];
    for _ in 0..3 {
        sim.load_account_from_faucet(a);
    }
    let mb = || ManifestBuilder::new().lock_fee_from_faucet();

    // resources with every feature
    let r = ok(
        sim.execute_manifest(
            mb().create_fungible_resource(OwnerRole::Updatable(rule!(allow_all)), true, 18, all_fungible_roles(), metadata!(), Some(dec!(1000)))
                .try_deposit_entire_worktop_or_abort(a, None)
                .build(),
            vec![],
        ),
        "create fall",
    );
    let fall = r.expect_commit(true).new_resource_addresses()[0];
    let r = ok(
        sim.execute_manifest(
            mb().create_non_fungible_resource(
                OwnerRole::Updatable(rule!(allow_all)),
                NonFungibleIdType::Integer,
                true,
                all_non_fungible_roles(),
                metadata!(),
                Some((1..=5u64).map(|i| (NonFungibleLocalId::integer(i), NfData { name: format!("n{i}"), level: i as u32 })).collect::<Vec<_>>()),
            )
            .try_deposit_entire_worktop_or_abort(a, None)
            .build(),
            vec![],
        ),
        "create nfall",
    );
    let nfall = r.expect_commit(true).new_resource_addresses()[0];
    ok(
        sim.execute_manifest(
            mb().withdraw_from_account(a, fall, dec!(5))
                .withdraw_non_fungibles_from_account(a, nfall, [NonFungibleLocalId::integer(5)])
                .try_deposit_entire_worktop_or_abort(b, None)
                .build(),
            sa.clone(),
        ),
        "give B fall and nfall",
    );

    // identity, validators
    let identity = sim.new_identity(pk_a, false);
    let own_validator = sim.new_staked_validator_with_pub_key(pk_a, a);
    ok(run_tx(sim, &w, &x, Tx::Stake).unwrap_or_else(|p| mc_core::machinery_error(&p)), "stake");
    ok(run_tx(sim, &w, &x, Tx::Unstake).unwrap_or_else(|p| mc_core::machinery_error(&p)), "unstake");

    // access controller, pools, locker, packages
    let r = ok(run_tx(sim, &w, &x, Tx::CreateAccessController).unwrap_or_else(|p| mc_core::machinery_error(&p)), "access controller");
    let ac = r.expect_commit(true).new_component_addresses()[0];
    ok(run_tx(sim, &w, &x, Tx::PoolContribute).unwrap_or_else(|p| mc_core::machinery_error(&p)), "pool contribute");
    let r = ok(run_tx(sim, &w, &x, Tx::CreateTwoPool).unwrap_or_else(|p| mc_core::machinery_error(&p)), "two pool");
    let pool2 = r.expect_commit(true).new_component_addresses()[0];
    let pool2_unit = r.expect_commit(true).new_resource_addresses()[0];
    ok(
        sim.execute_manifest(
            mb().withdraw_from_account(a, w.f18, dec!(2))
                .withdraw_from_account(a, w.f2, dec!(2))
                .take_all_from_worktop(w.f18, "p")
                .take_all_from_worktop(w.f2, "q")
                .call_method_with_name_lookup(pool2, "contribute", |l| ((l.bucket("p"), l.bucket("q")),))
                .try_deposit_entire_worktop_or_abort(a, None)
                .build(),
            sa.clone(),
        ),
        "two pool contribute",
    );
    let r = ok(
        sim.execute_manifest(
            mb().call_function(
                POOL_PACKAGE,
                "MultiResourcePool",
                "instantiate",
                manifest_args!(OwnerRole::None, rule!(allow_all), indexset![w.f18, w.f2, w.f0], Option::<ManifestAddressReservation>::None),
            )
            .build(),
            vec![],
        ),
        "multi pool",
    );
    let poolm = r.expect_commit(true).new_component_addresses()[0];
    let poolm_unit = r.expect_commit(true).new_resource_addresses()[0];
    ok(
        sim.execute_manifest(
            mb().withdraw_from_account(a, w.f18, dec!(1))
                .withdraw_from_account(a, w.f2, dec!(1))
                .withdraw_from_account(a, w.f0, dec!(1))
                .take_all_from_worktop(w.f18, "p")
                .take_all_from_worktop(w.f2, "q")
                .take_all_from_worktop(w.f0, "r")
                .call_method_with_name_lookup(poolm, "contribute", |l| (vec![l.bucket("p"), l.bucket("q"), l.bucket("r")],))
                .try_deposit_entire_worktop_or_abort(a, None)
                .build(),
            sa.clone(),
        ),
        "multi pool contribute",
    );
    let r = ok(run_tx(sim, &w, &x, Tx::LockerStore).unwrap_or_else(|p| mc_core::machinery_error(&p)), "locker");
    let locker = r.expect_commit(true).new_component_addresses()[0];
    let r = ok(
        sim.execute_manifest(
            mb().publish_package_advanced(None, wat2wasm(MINI_WAT), single_function_package_definition("Test", "f"), metadata_init!(), OwnerRole::Updatable(rule!(allow_all))).build(),
            vec![],
        ),
        "publish wat",
    );
    let wat_pkg = r.expect_commit(true).new_package_addresses()[0];
    let fwd_pkg = sim.publish_native_package(
        FWD_CODE_ID,
        PackageDefinition::new_functions_only_test_definition(FWD_BP, vec![("fwd", "fwd", false), ("fwd_proof", "fwd_proof", false), ("new_component", "new_component", false)]),
    );
    let r = ok(sim.execute_manifest(mb().call_function(fwd_pkg, FWD_BP, "new_component", manifest_args!()).build(), vec![]), "royalty component");
    let royalty_comp = r.expect_commit(true).new_component_addresses()[0];

    let ia = |n: NodeId| InternalAddress::new_or_panic(n.0);
    let vault_f = ia(sim.get_component_vaults(b, fall)[0]);
    let vault_nf = ia(sim.get_component_vaults(b, nfall)[0]);
    let vault_rc = ia(sim.get_component_vaults(b, w.rc)[0]);
    let kv_store = all_nodes(sim.substate_db())
        .into_iter()
        .find(|n| n.entity_type() == Some(EntityType::InternalKeyValueStore))
        .map(ia)
        .unwrap_or_else(|| mc_core::machinery_error("no key-value store in the base state"));

    let vinfo = sim.get_validator_info(own_validator);
    let (own_stake_unit, own_claim_nft) = (vinfo.stake_unit_resource, vinfo.claim_nft);
    let round = sim.get_consensus_manager_state().round.number();
    let code = wat2wasm(MINI_WAT);
    let blobs: IndexMap<Hash, Vec<u8>> = indexmap!(hash(&code) => code);
    let user_proofs = vec![w.a.sig.clone(), w.b.sig.clone(), validator_badge(own_validator), validator_badge(x.validator)];
    let system_proofs = vec![system_execution(SystemExecution::Validator), system_execution(SystemExecution::Protocol)];
    W11 {
        w,
        x,
        pk_a,
        fall,
        nfall,
        identity,
        own_validator,
        ac,
        pool2,
        pool2_unit,
        poolm,
        poolm_unit,
        locker,
        wat_pkg,
        fwd_pkg,
        royalty_comp,
        vault_f,
        vault_nf,
        vault_rc,
        own_stake_unit,
        own_claim_nft,
        round,
        blobs,
        kv_store,
        user_proofs,
        system_proofs,
    }
}

/// Non-initial states (DESIGN C11 (c)). Each is the base state plus a handful of committed transactions.
pub fn build_state(sim: &mut FSim, w: &W11, which: usize) {
    let a = w.w.a.addr;
    let sa = vec![w.w.a.sig.clone()];
    let mb = || ManifestBuilder::new().lock_fee_from_faucet();
    let go = |sim: &mut FSim, m: TransactionManifestV1, p: Vec<NonFungibleGlobalId>, what: &str| {
        ok(sim.execute_manifest(m, p), what);
    };
    match which {
        1 => {
            // after epoch changes, with frozen vaults, a recovery in progress and the primary role locked
            for _ in 0..2 {
                ok(run_tx(sim, &w.w, &w.x, Tx::NextRound).unwrap_or_else(|p| mc_core::machinery_error(&p)), "next round");
            }
            go(sim, mb().freeze_withdraw(w.vault_rc).freeze_withdraw(w.vault_f).freeze_deposit(w.vault_f).freeze_burn(w.vault_f).freeze_withdraw(w.vault_nf).build(), vec![], "freeze");
            go(
                sim,
                mb().call_method(
                    w.ac,
                    "initiate_recovery_as_recovery",
                    AccessControllerInitiateRecoveryAsRecoveryInput {
                        rule_set: RuleSet { primary_role: rule!(allow_all), recovery_role: rule!(allow_all), confirmation_role: rule!(deny_all) },
                        timed_recovery_delay_in_minutes: Some(1),
                    },
                )
                .call_method(w.ac, "lock_primary_role", manifest_args!())
                .build(),
                vec![],
                "recovery",
            );
        }
        2 => {
            // account with restrictive deposit rules, unregistered validator not accepting stake, burnt nf, emptied pool
            go(
                sim,
                mb().call_method(a, "set_default_deposit_rule", manifest_args!(DefaultDepositRule::Reject))
                    .call_method(a, "set_resource_preference", manifest_args!(w.w.f18, ResourcePreference::Disallowed))
                    .call_method(a, "add_authorized_depositor", manifest_args!(ResourceOrNonFungible::Resource(w.w.f2)))
                    .build(),
                sa.clone(),
                "deposit rules",
            );
            go(
                sim,
                mb().call_method(w.own_validator, "register", manifest_args!())
                    .call_method(w.own_validator, "update_accept_delegated_stake", manifest_args!(false))
                    .call_method(w.own_validator, "unregister", manifest_args!())
                    .build(),
                w.user_proofs.clone(),
                "validator",
            );
            go(sim, mb().burn_non_fungible_in_account(a, NonFungibleGlobalId::new(w.nfall, NonFungibleLocalId::integer(1))).build(), sa.clone(), "burn nf");
            go(
                sim,
                mb().withdraw_from_account(a, w.x.pool_unit, dec!(2))
                    .take_all_from_worktop(w.x.pool_unit, "u")
                    .call_method_with_name_lookup(w.x.pool, "redeem", |l| (l.bucket("u"),))
                    .try_deposit_entire_worktop_or_abort(w.w.b.addr, None)
                    .build(),
                sa,
                "empty pool",
            );
        }
        _ => {}
    }
}
