//! Schema-directed generation of manifest argument values (DESIGN §3.3 `schema_directed`) for C11.
//!
//! The walker takes a blueprint function's input type from the package's own Scrypto schema and produces
//!  * a *default* value tree (every enum at its first variant that bottoms out, collections with one element,
//!    leaves at a benign value taken from the generation context), and
//!  * for every node of that tree a small *alphabet* of alternatives (boundary numbers and decimals, empty / long /
//!    duplicate collections, every enum variant plus an undeclared discriminator, addresses of every entity type
//!    including non-existent ones, buckets and proofs of other resources, empty, dangling or of the wrong kind …),
//!  * all trees differing from the default in at most k node positions (`deviations`).
//!
//! A tree (`G`) is lowered to a `ManifestValue` plus the preamble instructions that create the buckets, proofs and
//! address reservations it mentions (ids are allocated in tree order, exactly like the transaction processor does).
use crate::world::W11;
use mc_ledger::*;
use radix_transactions::manifest::*;

pub type MVK = ManifestValueKind;

#[derive(Clone, Debug, PartialEq)]
pub enum BSpec {
    /// withdraw `amount` of `res` from account A and take all of it (amount 0: an empty bucket straight from the worktop)
    Amount(ResourceAddress, Decimal),
    Ids(ResourceAddress, Vec<u64>),
    Dangling(u32),
    /// a proof where a bucket is expected
    ProofInstead,
}

#[derive(Clone, Debug, PartialEq)]
pub enum PSpec {
    Amount(ResourceAddress, Decimal),
    Ids(ResourceAddress, Vec<u64>),
    Dangling(u32),
    BucketInstead,
}

#[derive(Clone, Debug, PartialEq)]
pub enum RSpec {
    For(PackageAddress, String),
    Dangling(u32),
}

#[derive(Clone, Debug, PartialEq)]
pub enum G {
    V(ManifestValue),
    Bucket(BSpec),
    Proof(PSpec),
    Resv(RSpec),
    Tuple(Vec<G>),
    Enum(u8, Vec<G>),
    Array(MVK, Vec<G>),
    Map(MVK, MVK, Vec<(G, G)>),
}

pub fn to_mv<T: ManifestEncode>(t: &T) -> ManifestValue {
    manifest_decode(&manifest_encode(t).unwrap()).unwrap()
}

pub fn addr_mv(n: NodeId) -> ManifestValue {
    ManifestValue::Custom { value: ManifestCustomValue::Address(ManifestAddress::Static(n)) }
}

// ------------------------------------------------------------------------------------------------
// lowering
// ------------------------------------------------------------------------------------------------

pub struct Lowered {
    pub preamble: Vec<InstructionV1>,
    pub value: ManifestValue,
}

struct Low {
    account: ComponentAddress,
    pre: Vec<InstructionV1>,
    buckets: u32,
    proofs: u32,
    resvs: u32,
}

fn call_account(account: ComponentAddress, method: &str, args: ManifestValue) -> InstructionV1 {
    InstructionV1::CallMethod(CallMethod { address: ManifestGlobalAddress::Static(account.into()), method_name: method.to_string(), args })
}

fn nf_ids(ids: &[u64]) -> Vec<NonFungibleLocalId> {
    ids.iter().map(|i| NonFungibleLocalId::integer(*i)).collect()
}

impl Low {
    fn new_bucket(&mut self, res: ResourceAddress, amount: Option<Decimal>, ids: Option<&[u64]>) -> u32 {
        match (amount, ids) {
            (Some(a), _) => {
                if !a.is_zero() {
                    self.pre.push(call_account(self.account, "withdraw", to_mv(&(res, a))));
                }
                self.pre.push(InstructionV1::TakeFromWorktop(TakeFromWorktop { resource_address: res, amount: a }));
            }
            (None, Some(ids)) => {
                self.pre.push(call_account(self.account, "withdraw_non_fungibles", to_mv(&(res, nf_ids(ids)))));
                self.pre.push(InstructionV1::TakeNonFungiblesFromWorktop(TakeNonFungiblesFromWorktop { resource_address: res, ids: nf_ids(ids) }));
            }
            _ => unreachable!(),
        }
        self.buckets += 1;
        self.buckets - 1
    }
    fn new_proof(&mut self, res: ResourceAddress, amount: Option<Decimal>, ids: Option<&[u64]>) -> u32 {
        match (amount, ids) {
            (Some(a), _) => self.pre.push(call_account(self.account, "create_proof_of_amount", to_mv(&(res, a)))),
            (None, Some(ids)) => self.pre.push(call_account(self.account, "create_proof_of_non_fungibles", to_mv(&(res, nf_ids(ids))))),
            _ => unreachable!(),
        }
        self.pre.push(InstructionV1::PopFromAuthZone(PopFromAuthZone));
        self.proofs += 1;
        self.proofs - 1
    }
    fn lower(&mut self, g: &G, dflt: (ResourceAddress, Decimal)) -> ManifestValue {
        let bucket = |id: u32| ManifestValue::Custom { value: ManifestCustomValue::Bucket(ManifestBucket(id)) };
        let proof = |id: u32| ManifestValue::Custom { value: ManifestCustomValue::Proof(ManifestProof(id)) };
        match g {
            G::V(v) => v.clone(),
            G::Bucket(b) => match b {
                BSpec::Amount(r, a) => bucket(self.new_bucket(*r, Some(*a), None)),
                BSpec::Ids(r, ids) => bucket(self.new_bucket(*r, None, Some(ids))),
                BSpec::Dangling(id) => bucket(*id),
                BSpec::ProofInstead => proof(self.new_proof(dflt.0, Some(dflt.1), None)),
            },
            G::Proof(p) => match p {
                PSpec::Amount(r, a) => proof(self.new_proof(*r, Some(*a), None)),
                PSpec::Ids(r, ids) => proof(self.new_proof(*r, None, Some(ids))),
                PSpec::Dangling(id) => proof(*id),
                PSpec::BucketInstead => bucket(self.new_bucket(dflt.0, Some(dflt.1), None)),
            },
            G::Resv(r) => match r {
                RSpec::For(pkg, bp) => {
                    self.pre.push(InstructionV1::AllocateGlobalAddress(AllocateGlobalAddress { package_address: *pkg, blueprint_name: bp.clone() }));
                    self.resvs += 1;
                    ManifestValue::Custom { value: ManifestCustomValue::AddressReservation(ManifestAddressReservation(self.resvs - 1)) }
                }
                RSpec::Dangling(id) => ManifestValue::Custom { value: ManifestCustomValue::AddressReservation(ManifestAddressReservation(*id)) },
            },
            G::Tuple(f) => ManifestValue::Tuple { fields: f.iter().map(|x| self.lower(x, dflt)).collect() },
            G::Enum(d, f) => ManifestValue::Enum { discriminator: *d, fields: f.iter().map(|x| self.lower(x, dflt)).collect() },
            G::Array(k, e) => ManifestValue::Array { element_value_kind: *k, elements: e.iter().map(|x| self.lower(x, dflt)).collect() },
            G::Map(kk, vk, e) => ManifestValue::Map {
                key_value_kind: *kk,
                value_value_kind: *vk,
                entries: e.iter().map(|(k, v)| (self.lower(k, dflt), self.lower(v, dflt))).collect(),
            },
        }
    }
}

pub fn lower(g: &G, account: ComponentAddress, dflt: (ResourceAddress, Decimal)) -> Lowered {
    let mut l = Low { account, pre: vec![], buckets: 0, proofs: 0, resvs: 0 };
    let value = l.lower(g, dflt);
    Lowered { preamble: l.pre, value }
}

/// Is the lowered value encodable (array elements of one kind, etc.)? Trees built from alternatives can mix kinds.
pub fn encodable(v: &ManifestValue) -> Option<Vec<u8>> {
    manifest_encode(v).ok()
}

// ------------------------------------------------------------------------------------------------
// generation context
// ------------------------------------------------------------------------------------------------

#[derive(Clone, Debug)]
pub struct Defaults {
    pub res: ResourceAddress,
    pub amount: Decimal,
    pub string: String,
    pub nf_id: u64,
    /// generate `Some(..)` rather than `None` for two-variant enums whose first variant is empty
    pub some: bool,
    /// prefer account B (and the second entity of each kind) for component references
    pub prefer_b: bool,
}

#[derive(Clone, Debug)]
pub struct Pools {
    /// (blueprint, node) of existing global entities
    pub globals: Vec<(&'static str, NodeId)>,
    pub internals: Vec<(&'static str, NodeId)>,
    /// well-formed addresses of entities that do not exist
    pub ghosts: Vec<NodeId>,
}

pub fn pools(w: &W11) -> Pools {
    let n = |a: &dyn AsRef<NodeId>| *a.as_ref();
    let _ = n;
    let g = |a: GlobalAddress| *a.as_node_id();
    let globals = vec![
        ("FungibleResourceManager", g(w.w.f18.into())),
        ("FungibleResourceManager", g(XRD.into())),
        ("FungibleResourceManager", g(w.fall.into())),
        ("FungibleResourceManager", g(w.w.f0.into())),
        ("FungibleResourceManager", g(w.x.pool_unit.into())),
        ("FungibleResourceManager", g(w.x.stake_unit.into())),
        ("NonFungibleResourceManager", g(w.nfall.into())),
        ("NonFungibleResourceManager", g(w.w.nf.into())),
        ("NonFungibleResourceManager", g(w.x.claim_nft.into())),
        ("Account", g(w.w.a.addr.into())),
        ("Account", g(w.w.b.addr.into())),
        ("Identity", g(w.identity.into())),
        ("Validator", g(w.own_validator.into())),
        ("Validator", g(w.x.validator.into())),
        ("ConsensusManager", g(CONSENSUS_MANAGER.into())),
        ("AccessController", g(w.ac.into())),
        ("OneResourcePool", g(w.x.pool.into())),
        ("TwoResourcePool", g(w.pool2.into())),
        ("MultiResourcePool", g(w.poolm.into())),
        ("AccountLocker", g(w.locker.into())),
        ("Package", g(ACCOUNT_PACKAGE.into())),
        ("Package", g(w.wat_pkg.into())),
        ("Faucet", g(FAUCET.into())),
        ("Fwd", g(w.royalty_comp.into())),
        ("TransactionTracker", g(TRANSACTION_TRACKER.into())),
    ];
    let internals = vec![
        ("FungibleVault", *w.vault_f.as_node_id()),
        ("NonFungibleVault", *w.vault_nf.as_node_id()),
        ("FungibleVault", *w.vault_rc.as_node_id()),
        ("KeyValueStore", *w.kv_store.as_node_id()),
    ];
    let ghost = |et: EntityType| {
        let mut b = [0x5au8; 30];
        b[0] = et as u8;
        NodeId(b)
    };
    let ghosts = vec![
        ghost(EntityType::GlobalFungibleResourceManager),
        ghost(EntityType::GlobalNonFungibleResourceManager),
        ghost(EntityType::GlobalGenericComponent),
        ghost(EntityType::GlobalPackage),
        ghost(EntityType::GlobalAccount),
        ghost(EntityType::GlobalPreallocatedSecp256k1Account),
        ghost(EntityType::GlobalPreallocatedEd25519Identity),
        ghost(EntityType::InternalFungibleVault),
        ghost(EntityType::InternalKeyValueStore),
        // not even a valid entity type byte
        NodeId([0xEE; 30]),
    ];
    Pools { globals, internals, ghosts }
}

pub const DICTIONARY: &[&str] = &[
    "_owner_", "_self_", "minter", "minter_updater", "burner", "withdrawer", "depositor", "recaller", "freezer", "non_fungible_data_updater", "securify", "primary", "recovery", "confirmation",
    "pool_manager", "pool_manager_role", "storer", "recoverer", "metadata_setter", "metadata_locker", "royalty_setter", "name", "level", "f", "Test", "Account", "https://a.b",
];

pub struct Gen<'a> {
    pub schema: &'a VersionedScryptoSchema,
    pub w: &'a W11,
    pub pools: &'a Pools,
    pub d: Defaults,
    /// target's own (package, blueprint): the right choice for an address reservation
    pub target: (PackageAddress, String),
    /// reduced alphabets (quick tier)
    pub small: bool,
}

const MAX_DEPTH: u32 = 24;

fn is_global_entity(n: &NodeId) -> bool {
    n.entity_type().map(|e| e.is_global()).unwrap_or(false)
}

impl<'a> Gen<'a> {
    fn kind(&self, t: LocalTypeId) -> &ScryptoLocalTypeKind {
        self.schema.v1().resolve_type_kind(t).unwrap_or_else(|| mc_core::machinery_error(&format!("C11: unresolvable type id {t:?}")))
    }
    fn validation(&self, t: LocalTypeId) -> &TypeValidation<ScryptoCustomTypeValidation> {
        self.schema.v1().resolve_type_validation(t).unwrap_or(&TypeValidation::None)
    }
    pub fn type_name(&self, t: LocalTypeId) -> String {
        self.schema.v1().resolve_type_metadata(t).and_then(|m| m.type_name.as_ref().map(|s| s.to_string())).unwrap_or_default()
    }

    /// manifest value kind of values of this type
    pub fn vk(&self, t: LocalTypeId) -> MVK {
        match self.kind(t) {
            TypeKind::Any => MVK::Tuple,
            TypeKind::Bool => MVK::Bool,
            TypeKind::I8 => MVK::I8,
            TypeKind::I16 => MVK::I16,
            TypeKind::I32 => MVK::I32,
            TypeKind::I64 => MVK::I64,
            TypeKind::I128 => MVK::I128,
            TypeKind::U8 => MVK::U8,
            TypeKind::U16 => MVK::U16,
            TypeKind::U32 => MVK::U32,
            TypeKind::U64 => MVK::U64,
            TypeKind::U128 => MVK::U128,
            TypeKind::String => MVK::String,
            TypeKind::Array { .. } => MVK::Array,
            TypeKind::Tuple { .. } => MVK::Tuple,
            TypeKind::Enum { .. } => MVK::Enum,
            TypeKind::Map { .. } => MVK::Map,
            TypeKind::Custom(c) => MVK::Custom(match c {
                ScryptoCustomTypeKind::Reference => ManifestCustomValueKind::Address,
                ScryptoCustomTypeKind::Own => match self.validation(t) {
                    TypeValidation::Custom(ScryptoCustomTypeValidation::Own(OwnValidation::IsProof)) => ManifestCustomValueKind::Proof,
                    TypeValidation::Custom(ScryptoCustomTypeValidation::Own(OwnValidation::IsGlobalAddressReservation)) => ManifestCustomValueKind::AddressReservation,
                    TypeValidation::Custom(ScryptoCustomTypeValidation::Own(OwnValidation::IsTypedObject(_, bp))) if bp.contains("Proof") => ManifestCustomValueKind::Proof,
                    _ => ManifestCustomValueKind::Bucket,
                },
                ScryptoCustomTypeKind::Decimal => ManifestCustomValueKind::Decimal,
                ScryptoCustomTypeKind::PreciseDecimal => ManifestCustomValueKind::PreciseDecimal,
                ScryptoCustomTypeKind::NonFungibleLocalId => ManifestCustomValueKind::NonFungibleLocalId,
            }),
        }
    }

    // ---------------------------------------------------------------- leaf alphabets (first element = default)

    fn ints(&self, t: LocalTypeId) -> Vec<ManifestValue> {
        macro_rules! gen_int {
            ($ty:ty, $var:ident, $valv:ident) => {{
                let mut v: Vec<$ty> = vec![1, 0, 2, <$ty>::MAX, <$ty>::MAX - 1, <$ty>::MIN];
                #[allow(unused_comparisons)]
                if <$ty>::MIN < 0 {
                    v.push((0 as $ty).wrapping_sub(1));
                    v.push(<$ty>::MIN + 1);
                }
                if let TypeValidation::$valv(nv) = self.validation(t) {
                    let mut firsts = vec![];
                    if let Some(lo) = nv.min {
                        firsts.push(lo);
                        v.push(lo.wrapping_sub(1));
                        v.push(lo.wrapping_add(1));
                    }
                    if let Some(hi) = nv.max {
                        v.push(hi);
                        v.push(hi.wrapping_add(1));
                        v.push(hi.wrapping_sub(1));
                    }
                    // the default must satisfy the validation
                    let okv = |x: &$ty| nv.min.map(|lo| *x >= lo).unwrap_or(true) && nv.max.map(|hi| *x <= hi).unwrap_or(true);
                    if !okv(&1) {
                        firsts.extend(v.iter().cloned().filter(okv));
                        if let Some(f) = firsts.first().cloned() {
                            v.insert(0, f);
                        }
                    }
                }
                let mut seen = vec![];
                for x in v {
                    if !seen.contains(&x) {
                        seen.push(x);
                    }
                }
                seen.into_iter().map(|value| ManifestValue::$var { value }).collect()
            }};
        }
        match self.kind(t) {
            TypeKind::I8 => gen_int!(i8, I8, I8),
            TypeKind::I16 => gen_int!(i16, I16, I16),
            TypeKind::I32 => gen_int!(i32, I32, I32),
            TypeKind::I64 => gen_int!(i64, I64, I64),
            TypeKind::I128 => gen_int!(i128, I128, I128),
            TypeKind::U8 => gen_int!(u8, U8, U8),
            TypeKind::U16 => gen_int!(u16, U16, U16),
            TypeKind::U32 => gen_int!(u32, U32, U32),
            TypeKind::U64 => gen_int!(u64, U64, U64),
            TypeKind::U128 => gen_int!(u128, U128, U128),
            _ => unreachable!(),
        }
    }

    fn decimals(&self) -> Vec<ManifestValue> {
        let mut v = vec![self.d.amount, Decimal::ZERO, dec!(-1), Decimal::from_attos(I192::ONE), dec!("0.5"), dec!(10), dec!(11), dec!(1000000), Decimal::MAX, Decimal::MIN];
        if !self.small {
            v.extend([Decimal::MAX.checked_sub(Decimal::from_attos(I192::ONE)).unwrap(), dec!("0.001"), dec!(2), dec!("1000000000000000000000")]);
        }
        dedup(v.iter().map(to_mv).collect())
    }

    fn precise_decimals(&self) -> Vec<ManifestValue> {
        let v = vec![pdec!(1), PreciseDecimal::ZERO, pdec!(-1), PreciseDecimal::from_precise_subunits(I256::ONE), pdec!("0.5"), pdec!(1000000), PreciseDecimal::MAX, PreciseDecimal::MIN];
        v.iter().map(to_mv).collect()
    }

    fn strings(&self) -> Vec<ManifestValue> {
        let mut v: Vec<String> = vec![self.d.string.clone(), String::new(), "a".into()];
        v.extend(DICTIONARY.iter().map(|s| s.to_string()));
        v.push("x".repeat(300));
        v.push("é∑\u{1F600}".into());
        v.push("a\0b".into());
        if !self.small {
            v.push("x".repeat(5000));
        }
        dedup(v.into_iter().map(|value| ManifestValue::String { value }).collect())
    }

    fn nf_local_ids(&self) -> Vec<ManifestValue> {
        let v = vec![
            NonFungibleLocalId::integer(self.d.nf_id),
            NonFungibleLocalId::integer(0),
            NonFungibleLocalId::integer(2),
            NonFungibleLocalId::integer(5),
            NonFungibleLocalId::integer(99),
            NonFungibleLocalId::integer(u64::MAX),
            NonFungibleLocalId::string("a").unwrap(),
            NonFungibleLocalId::string("x".repeat(64)).unwrap(),
            NonFungibleLocalId::bytes(vec![1u8]).unwrap(),
            NonFungibleLocalId::ruid([0u8; 32]),
        ];
        dedup(v.iter().map(to_mv).collect())
    }

    fn ref_ok(&self, val: &ReferenceValidation, bp: &str, n: &NodeId) -> bool {
        let et = n.entity_type();
        match val {
            ReferenceValidation::IsGlobal => is_global_entity(n),
            ReferenceValidation::IsGlobalPackage => et == Some(EntityType::GlobalPackage),
            ReferenceValidation::IsGlobalComponent => et.map(|e| e.is_global_component()).unwrap_or(false),
            ReferenceValidation::IsGlobalResourceManager => et.map(|e| e.is_global_resource_manager()).unwrap_or(false),
            ReferenceValidation::IsGlobalTyped(_, want) => is_global_entity(n) && want == bp,
            ReferenceValidation::IsInternal => et.map(|e| e.is_internal()).unwrap_or(false),
            ReferenceValidation::IsInternalTyped(_, want) => et.map(|e| e.is_internal()).unwrap_or(false) && want == bp,
        }
    }

    fn references(&self, t: LocalTypeId) -> Vec<ManifestValue> {
        let val = match self.validation(t) {
            TypeValidation::Custom(ScryptoCustomTypeValidation::Reference(r)) => r.clone(),
            _ => ReferenceValidation::IsGlobal,
        };
        let mut good: Vec<NodeId> = vec![];
        let mut bad: Vec<NodeId> = vec![];
        // the context's default resource first when it fits
        let dres = *self.d.res.as_node_id();
        let all: Vec<(&str, NodeId)> = std::iter::once(("", dres))
            .map(|(_, n)| (if n.entity_type() == Some(EntityType::GlobalNonFungibleResourceManager) { "NonFungibleResourceManager" } else { "FungibleResourceManager" }, n))
            .chain(self.pools.globals.iter().cloned())
            .chain(self.pools.internals.iter().cloned())
            .collect();
        let mut all = all;
        if self.d.prefer_b {
            // B before A
            let b = *self.w.w.b.addr.as_node_id();
            if let Some(i) = all.iter().position(|(_, n)| *n == b) {
                let e = all.remove(i);
                all.insert(1, e);
            }
        }
        let mut seen_bp_bad: Vec<&str> = vec![];
        for (bp, n) in &all {
            if self.ref_ok(&val, bp, n) {
                if !good.contains(n) {
                    good.push(*n);
                }
            } else if !seen_bp_bad.contains(bp) || !self.small {
                // one representative per blueprint of the wrong kind (all of them in thorough)
                seen_bp_bad.push(bp);
                if !bad.contains(n) {
                    bad.push(*n);
                }
            }
        }
        if self.small && good.len() > 6 {
            // keep one per blueprint + the first few
            let mut kept: Vec<NodeId> = vec![];
            let mut bps: Vec<&str> = vec![];
            for (bp, n) in &all {
                if good.contains(n) && (!bps.contains(bp) || kept.len() < 4) && !kept.contains(n) {
                    bps.push(bp);
                    kept.push(*n);
                }
            }
            good = kept;
        }
        let ghosts: Vec<NodeId> = if self.small { self.pools.ghosts.iter().cloned().filter(|n| self.ref_ok(&val, "", n) || n.0[0] == 0xEE).chain(self.pools.ghosts.iter().take(1).cloned()).collect() } else { self.pools.ghosts.clone() };
        let mut out: Vec<NodeId> = good;
        for n in bad.into_iter().chain(ghosts) {
            if !out.contains(&n) {
                out.push(n);
            }
        }
        out.into_iter().map(addr_mv).collect()
    }

    fn buckets(&self) -> Vec<G> {
        let w = self.w;
        let mut v = vec![
            BSpec::Amount(self.d.res, self.d.amount),
            BSpec::Amount(self.d.res, Decimal::ZERO),
            BSpec::Amount(XRD, dec!(1)),
            BSpec::Amount(w.fall, dec!(1)),
            BSpec::Ids(w.nfall, vec![2]),
            BSpec::Ids(w.w.nf, vec![1, 2]),
            BSpec::Amount(w.x.pool_unit, dec!(1)),
            BSpec::Amount(w.x.stake_unit, dec!(1)),
            BSpec::Amount(w.x.claim_nft, dec!(1)),
            BSpec::Dangling(77),
            BSpec::ProofInstead,
        ];
        if !self.small {
            v.extend([BSpec::Amount(w.w.f0, dec!(1)), BSpec::Amount(w.w.f2, dec!("0.01")), BSpec::Amount(w.w.rc, dec!(1)), BSpec::Amount(XRD, dec!(20000)), BSpec::Amount(w.pool2_unit, dec!(1)), BSpec::Amount(w.poolm_unit, dec!(1))]);
        }
        let mut out: Vec<G> = vec![];
        for b in v {
            let g = G::Bucket(b);
            if !out.contains(&g) {
                out.push(g);
            }
        }
        out
    }

    fn proofs(&self) -> Vec<G> {
        let w = self.w;
        let v = vec![
            PSpec::Amount(self.d.res, self.d.amount),
            PSpec::Amount(XRD, dec!(1)),
            PSpec::Amount(w.fall, dec!(1)),
            PSpec::Ids(w.nfall, vec![2]),
            PSpec::Amount(w.x.claim_nft, dec!(1)),
            PSpec::Amount(VALIDATOR_OWNER_BADGE, dec!(1)),
            PSpec::Dangling(77),
            PSpec::BucketInstead,
        ];
        let mut out: Vec<G> = vec![];
        for p in v {
            let g = G::Proof(p);
            if !out.contains(&g) {
                out.push(g);
            }
        }
        out
    }

    fn reservations(&self) -> Vec<G> {
        vec![
            G::Resv(RSpec::For(self.target.0, self.target.1.clone())),
            G::Resv(RSpec::For(ACCOUNT_PACKAGE, "Account".into())),
            G::Resv(RSpec::For(RESOURCE_PACKAGE, "FungibleResourceManager".into())),
            G::Resv(RSpec::For(self.target.0, "NoSuchBlueprint".into())),
            G::Resv(RSpec::Dangling(77)),
        ]
    }

    fn anys(&self) -> Vec<G> {
        vec![
            G::V(ManifestValue::Tuple { fields: vec![] }),
            G::V(ManifestValue::U8 { value: 1 }),
            G::V(ManifestValue::String { value: "a".into() }),
            G::V(to_mv(&(String::from("n"), 1u32))),
            G::V(to_mv(&(dec!(1), XRD))),
            G::V(ManifestValue::Array { element_value_kind: MVK::U8, elements: vec![] }),
            G::V(ManifestValue::Enum { discriminator: 0, fields: vec![] }),
            G::Bucket(BSpec::Amount(self.d.res, self.d.amount)),
        ]
    }

    /// alphabet of a leaf type, default first; None for composite types
    fn leaf_alphabet(&self, t: LocalTypeId) -> Option<Vec<G>> {
        let wrap = |v: Vec<ManifestValue>| Some(v.into_iter().map(G::V).collect());
        match self.kind(t) {
            TypeKind::Any => Some(self.anys()),
            TypeKind::Bool => wrap(vec![ManifestValue::Bool { value: false }, ManifestValue::Bool { value: true }]),
            TypeKind::I8 | TypeKind::I16 | TypeKind::I32 | TypeKind::I64 | TypeKind::I128 | TypeKind::U8 | TypeKind::U16 | TypeKind::U32 | TypeKind::U64 | TypeKind::U128 => wrap(self.ints(t)),
            TypeKind::String => wrap(self.strings()),
            TypeKind::Custom(ScryptoCustomTypeKind::Decimal) => wrap(self.decimals()),
            TypeKind::Custom(ScryptoCustomTypeKind::PreciseDecimal) => wrap(self.precise_decimals()),
            TypeKind::Custom(ScryptoCustomTypeKind::NonFungibleLocalId) => wrap(self.nf_local_ids()),
            TypeKind::Custom(ScryptoCustomTypeKind::Reference) => wrap(self.references(t)),
            TypeKind::Custom(ScryptoCustomTypeKind::Own) => Some(match self.vk(t) {
                MVK::Custom(ManifestCustomValueKind::Proof) => self.proofs(),
                MVK::Custom(ManifestCustomValueKind::AddressReservation) => self.reservations(),
                _ => self.buckets(),
            }),
            _ => None,
        }
    }

    // ---------------------------------------------------------------- defaults

    pub fn default(&self, t: LocalTypeId, depth: u32) -> Option<G> {
        if depth > MAX_DEPTH {
            return None;
        }
        if let Some(a) = self.leaf_alphabet(t) {
            return a.into_iter().next();
        }
        match self.kind(t).clone() {
            TypeKind::Array { element_type } => {
                let ek = self.vk(element_type);
                if matches!(self.kind(element_type), TypeKind::U8) {
                    return Some(self.byte_arrays(t).into_iter().next().unwrap());
                }
                match self.default(element_type, depth + 1) {
                    Some(e) => Some(G::Array(ek, vec![e])),
                    None => Some(G::Array(ek, vec![])),
                }
            }
            TypeKind::Tuple { field_types } => {
                let mut f = vec![];
                for ft in field_types {
                    f.push(self.default(ft, depth + 1)?);
                }
                Some(G::Tuple(f))
            }
            TypeKind::Enum { variants } => {
                let mut order: Vec<(&u8, &Vec<LocalTypeId>)> = variants.iter().collect();
                if self.d.some && variants.len() == 2 {
                    order.reverse();
                }
                for (d, fts) in order {
                    let mut f = vec![];
                    let mut okv = true;
                    for ft in fts {
                        match self.default(*ft, depth + 1) {
                            Some(g) => f.push(g),
                            None => {
                                okv = false;
                                break;
                            }
                        }
                    }
                    if okv {
                        return Some(G::Enum(*d, f));
                    }
                }
                None
            }
            TypeKind::Map { key_type, value_type } => {
                let (kk, vk) = (self.vk(key_type), self.vk(value_type));
                match (self.default(key_type, depth + 1), self.default(value_type, depth + 1)) {
                    (Some(k), Some(v)) => Some(G::Map(kk, vk, vec![(k, v)])),
                    _ => Some(G::Map(kk, vk, vec![])),
                }
            }
            _ => None,
        }
    }

    fn byte_arrays(&self, t: LocalTypeId) -> Vec<G> {
        let mk = |n: usize, b: u8| G::Array(MVK::U8, (0..n).map(|_| G::V(ManifestValue::U8 { value: b })).collect());
        let (min, max) = match self.validation(t) {
            TypeValidation::Array(lv) => (lv.min.map(|x| x as usize), lv.max.map(|x| x as usize)),
            _ => (None, None),
        };
        let mut out = vec![];
        if let Some(lo) = min {
            // fixed / bounded length (keys, hashes): a real public key when the length fits
            if lo == 33 && max == Some(33) {
                out.push(G::Array(MVK::U8, self.w.pk_a.0.iter().map(|b| G::V(ManifestValue::U8 { value: *b })).collect()));
            }
            out.push(mk(lo, 0));
            out.push(mk(lo, 0xff));
            if lo > 0 {
                out.push(mk(lo - 1, 1));
            }
        } else {
            out.push(mk(0, 0));
            out.push(mk(1, 0));
            out.push(mk(2, 0xff));
        }
        if let Some(hi) = max {
            out.push(mk(hi + 1, 1));
            if Some(hi) != min {
                out.push(mk(hi, 2));
            }
        } else {
            out.push(mk(1000, 7));
        }
        let mut d: Vec<G> = vec![];
        for g in out {
            if !d.contains(&g) {
                d.push(g);
            }
        }
        d
    }

    // ---------------------------------------------------------------- alternatives at one node

    /// alternatives for the node `cur` of type `t` (never equal to `cur`)
    pub fn alts(&self, t: LocalTypeId, cur: &G, depth: u32) -> Vec<G> {
        let mut out: Vec<G> = vec![];
        if let Some(a) = self.leaf_alphabet(t) {
            out = a;
        } else {
            match self.kind(t).clone() {
                TypeKind::Array { element_type } => {
                    let ek = self.vk(element_type);
                    if matches!(self.kind(element_type), TypeKind::U8) {
                        out = self.byte_arrays(t);
                        out.push(G::V(ManifestValue::Custom { value: ManifestCustomValue::Blob(ManifestBlobRef([0x42; 32])) }));
                    } else {
                        out.push(G::Array(ek, vec![]));
                        if let Some(e) = self.default(element_type, depth + 1) {
                            out.push(G::Array(ek, vec![e.clone()]));
                            // duplicates, and two different elements
                            out.push(G::Array(ek, vec![e.clone(), e.clone()]));
                            if let Some(e2) = self.alts(element_type, &e, depth + 1).into_iter().next() {
                                out.push(G::Array(ek, vec![e.clone(), e2]));
                            }
                            let long = if has_resources(&e) { 12 } else { 70 };
                            out.push(G::Array(ek, (0..long).map(|_| e.clone()).collect()));
                        }
                        match ek {
                            MVK::Custom(ManifestCustomValueKind::Bucket) => out.push(G::V(ManifestValue::Custom { value: ManifestCustomValue::Expression(ManifestExpression::EntireWorktop) })),
                            MVK::Custom(ManifestCustomValueKind::Proof) => out.push(G::V(ManifestValue::Custom { value: ManifestCustomValue::Expression(ManifestExpression::EntireAuthZone) })),
                            _ => {}
                        }
                        // length validation boundaries
                        if let TypeValidation::Array(lv) = self.validation(t) {
                            if let (Some(e), Some(hi)) = (self.default(element_type, depth + 1), lv.max) {
                                if hi < 200 && !has_resources(&e) {
                                    out.push(G::Array(ek, (0..hi).map(|_| e.clone()).collect()));
                                    out.push(G::Array(ek, (0..hi + 1).map(|_| e.clone()).collect()));
                                }
                            }
                        }
                    }
                }
                TypeKind::Tuple { field_types } => {
                    if let G::Tuple(f) = cur {
                        // one field fewer / one more
                        if !f.is_empty() {
                            out.push(G::Tuple(f[..f.len() - 1].to_vec()));
                        }
                        let mut more = f.clone();
                        more.push(G::V(ManifestValue::Tuple { fields: vec![] }));
                        out.push(G::Tuple(more));
                    }
                    let _ = field_types;
                }
                TypeKind::Enum { variants } => {
                    let option_like = variants.len() == 2 && variants.values().any(|v| v.is_empty());
                    for (d, fts) in variants.iter() {
                        let mut f = vec![];
                        let mut okv = true;
                        for ft in fts {
                            match self.default(*ft, depth + 1) {
                                Some(g) => f.push(g),
                                None => {
                                    okv = false;
                                    break;
                                }
                            }
                        }
                        if !okv {
                            continue;
                        }
                        let v = G::Enum(*d, f.clone());
                        let is_cur = &v == cur;
                        out.push(v);
                        // Option-like enums: also every single deviation inside the non-default variant
                        if option_like && !is_cur && !fts.is_empty() && depth < MAX_DEPTH {
                            for (i, ft) in fts.iter().enumerate() {
                                for alt in self.deviations(*ft, &f[i], 1, depth + 1) {
                                    let mut f2 = f.clone();
                                    f2[i] = alt;
                                    out.push(G::Enum(*d, f2));
                                }
                            }
                        }
                    }
                    // undeclared discriminator
                    let undeclared = (0..=255u8).rev().find(|d| !variants.contains_key(d));
                    if let Some(d) = undeclared {
                        out.push(G::Enum(d, vec![]));
                    }
                }
                TypeKind::Map { key_type, value_type } => {
                    let (kk, vk) = (self.vk(key_type), self.vk(value_type));
                    out.push(G::Map(kk, vk, vec![]));
                    if let (Some(k), Some(v)) = (self.default(key_type, depth + 1), self.default(value_type, depth + 1)) {
                        out.push(G::Map(kk, vk, vec![(k.clone(), v.clone())]));
                        // duplicate key
                        out.push(G::Map(kk, vk, vec![(k.clone(), v.clone()), (k.clone(), v.clone())]));
                        let keys = self.alts(key_type, &k, depth + 1);
                        if let Some(k2) = keys.first() {
                            out.push(G::Map(kk, vk, vec![(k.clone(), v.clone()), (k2.clone(), v.clone())]));
                        }
                        // many distinct keys when the key alphabet allows
                        if keys.len() >= 8 && !has_resources(&v) {
                            out.push(G::Map(kk, vk, keys.iter().take(24).map(|kx| (kx.clone(), v.clone())).collect()));
                        }
                    }
                }
                _ => {}
            }
        }
        let mut d: Vec<G> = vec![];
        for g in out {
            if &g != cur && !d.contains(&g) {
                d.push(g);
            }
        }
        d
    }

    // ---------------------------------------------------------------- deviations

    /// child positions of `cur` with their types
    fn children(&self, t: LocalTypeId, cur: &G) -> Vec<(usize, LocalTypeId)> {
        match (self.kind(t), cur) {
            (TypeKind::Tuple { field_types }, G::Tuple(f)) if f.len() == field_types.len() => field_types.iter().cloned().enumerate().collect(),
            (TypeKind::Enum { variants }, G::Enum(d, f)) => match variants.get(d) {
                Some(fts) if fts.len() == f.len() => fts.iter().cloned().enumerate().collect(),
                _ => vec![],
            },
            (TypeKind::Array { element_type }, G::Array(_, e)) if !matches!(self.kind(*element_type), TypeKind::U8) => (0..e.len()).map(|i| (i, *element_type)).collect(),
            (TypeKind::Map { key_type, value_type }, G::Map(_, _, e)) => (0..e.len()).flat_map(|i| [(2 * i, *key_type), (2 * i + 1, *value_type)]).collect(),
            _ => vec![],
        }
    }

    fn child<'g>(cur: &'g G, i: usize) -> &'g G {
        match cur {
            G::Tuple(f) | G::Enum(_, f) | G::Array(_, f) => &f[i],
            G::Map(_, _, e) => {
                if i % 2 == 0 {
                    &e[i / 2].0
                } else {
                    &e[i / 2].1
                }
            }
            _ => unreachable!(),
        }
    }

    fn with_child(cur: &G, i: usize, new: G) -> G {
        let mut c = cur.clone();
        match &mut c {
            G::Tuple(f) | G::Enum(_, f) | G::Array(_, f) => f[i] = new,
            G::Map(_, _, e) => {
                if i % 2 == 0 {
                    e[i / 2].0 = new
                } else {
                    e[i / 2].1 = new
                }
            }
            _ => unreachable!(),
        }
        c
    }

    /// every tree that differs from `cur` in at least 1 and at most `k` node positions (k ∈ {1, 2})
    pub fn deviations(&self, t: LocalTypeId, cur: &G, k: u32, depth: u32) -> Vec<G> {
        if k == 0 || depth > MAX_DEPTH {
            return vec![];
        }
        let mut out = self.alts(t, cur, depth);
        let ch = self.children(t, cur);
        let mut per_child_1: Vec<Vec<G>> = vec![];
        for (i, ct) in &ch {
            let d = self.deviations(*ct, Self::child(cur, *i), k, depth + 1);
            for alt in &d {
                out.push(Self::with_child(cur, *i, alt.clone()));
            }
            if k >= 2 {
                per_child_1.push(self.deviations(*ct, Self::child(cur, *i), 1, depth + 1));
            }
        }
        if k >= 2 {
            for a in 0..ch.len() {
                for b in a + 1..ch.len() {
                    for x in &per_child_1[a] {
                        let with_a = Self::with_child(cur, ch[a].0, x.clone());
                        for y in &per_child_1[b] {
                            out.push(Self::with_child(&with_a, ch[b].0, y.clone()));
                        }
                    }
                }
            }
        }
        out
    }

    /// number of node positions of the default tree
    pub fn positions(&self, t: LocalTypeId, cur: &G) -> usize {
        1 + self.children(t, cur).iter().map(|(i, ct)| self.positions(*ct, Self::child(cur, *i))).sum::<usize>()
    }
}

fn dedup(v: Vec<ManifestValue>) -> Vec<ManifestValue> {
    let mut out: Vec<ManifestValue> = vec![];
    for x in v {
        if !out.contains(&x) {
            out.push(x);
        }
    }
    out
}

pub fn has_resources(g: &G) -> bool {
    match g {
        G::V(_) => false,
        G::Bucket(_) | G::Proof(_) | G::Resv(_) => true,
        G::Tuple(f) | G::Enum(_, f) | G::Array(_, f) => f.iter().any(has_resources),
        G::Map(_, _, e) => e.iter().any(|(k, v)| has_resources(k) || has_resources(v)),
    }
}

// ------------------------------------------------------------------------------------------------
// Scrypto flavour (payloads forwarded by the probe to bucket / proof methods)
// ------------------------------------------------------------------------------------------------

fn svk(k: &MVK) -> ScryptoValueKind {
    match k {
        ValueKind::Bool => ValueKind::Bool,
        ValueKind::I8 => ValueKind::I8,
        ValueKind::I16 => ValueKind::I16,
        ValueKind::I32 => ValueKind::I32,
        ValueKind::I64 => ValueKind::I64,
        ValueKind::I128 => ValueKind::I128,
        ValueKind::U8 => ValueKind::U8,
        ValueKind::U16 => ValueKind::U16,
        ValueKind::U32 => ValueKind::U32,
        ValueKind::U64 => ValueKind::U64,
        ValueKind::U128 => ValueKind::U128,
        ValueKind::String => ValueKind::String,
        ValueKind::Enum => ValueKind::Enum,
        ValueKind::Array => ValueKind::Array,
        ValueKind::Tuple => ValueKind::Tuple,
        ValueKind::Map => ValueKind::Map,
        ValueKind::Custom(c) => ValueKind::Custom(match c {
            ManifestCustomValueKind::Address => ScryptoCustomValueKind::Reference,
            ManifestCustomValueKind::Decimal => ScryptoCustomValueKind::Decimal,
            ManifestCustomValueKind::PreciseDecimal => ScryptoCustomValueKind::PreciseDecimal,
            ManifestCustomValueKind::NonFungibleLocalId => ScryptoCustomValueKind::NonFungibleLocalId,
            _ => ScryptoCustomValueKind::Own,
        }),
    }
}

/// an `Own` of a node that the caller does not own
fn ghost_own() -> ScryptoValue {
    let mut b = [0x33u8; 30];
    b[0] = EntityType::InternalGenericComponent as u8;
    ScryptoValue::Custom { value: ScryptoCustomValue::Own(Own(NodeId(b))) }
}

fn m2s(v: &ManifestValue) -> ScryptoValue {
    match v {
        Value::Bool { value } => Value::Bool { value: *value },
        Value::I8 { value } => Value::I8 { value: *value },
        Value::I16 { value } => Value::I16 { value: *value },
        Value::I32 { value } => Value::I32 { value: *value },
        Value::I64 { value } => Value::I64 { value: *value },
        Value::I128 { value } => Value::I128 { value: *value },
        Value::U8 { value } => Value::U8 { value: *value },
        Value::U16 { value } => Value::U16 { value: *value },
        Value::U32 { value } => Value::U32 { value: *value },
        Value::U64 { value } => Value::U64 { value: *value },
        Value::U128 { value } => Value::U128 { value: *value },
        Value::String { value } => Value::String { value: value.clone() },
        Value::Enum { discriminator, fields } => Value::Enum { discriminator: *discriminator, fields: fields.iter().map(m2s).collect() },
        Value::Array { element_value_kind, elements } => Value::Array { element_value_kind: svk(element_value_kind), elements: elements.iter().map(m2s).collect() },
        Value::Tuple { fields } => Value::Tuple { fields: fields.iter().map(m2s).collect() },
        Value::Map { key_value_kind, value_value_kind, entries } => {
            Value::Map { key_value_kind: svk(key_value_kind), value_value_kind: svk(value_value_kind), entries: entries.iter().map(|(k, v)| (m2s(k), m2s(v))).collect() }
        }
        Value::Custom { value } => match value {
            ManifestCustomValue::Address(ManifestAddress::Static(n)) => Value::Custom { value: ScryptoCustomValue::Reference(Reference(*n)) },
            ManifestCustomValue::Decimal(d) => Value::Custom { value: ScryptoCustomValue::Decimal(to_decimal(d)) },
            ManifestCustomValue::PreciseDecimal(d) => Value::Custom { value: ScryptoCustomValue::PreciseDecimal(to_precise_decimal(d)) },
            ManifestCustomValue::NonFungibleLocalId(i) => Value::Custom { value: ScryptoCustomValue::NonFungibleLocalId(to_non_fungible_local_id(i.clone())) },
            _ => ghost_own(),
        },
    }
}

/// Scrypto value of a generated tree; buckets / proofs / reservations become an `Own` the caller does not own
pub fn g2s(g: &G) -> ScryptoValue {
    match g {
        G::V(v) => m2s(v),
        G::Bucket(_) | G::Proof(_) | G::Resv(_) => ghost_own(),
        G::Tuple(f) => Value::Tuple { fields: f.iter().map(g2s).collect() },
        G::Enum(d, f) => Value::Enum { discriminator: *d, fields: f.iter().map(g2s).collect() },
        G::Array(k, e) => Value::Array { element_value_kind: svk(k), elements: e.iter().map(g2s).collect() },
        G::Map(kk, vk, e) => Value::Map { key_value_kind: svk(kk), value_value_kind: svk(vk), entries: e.iter().map(|(k, v)| (g2s(k), g2s(v))).collect() },
    }
}

/// structural conversion of a concrete manifest value (hand-registered default) into a tree whose nodes can be deviated
pub fn mv2g(v: &ManifestValue) -> G {
    match v {
        Value::Tuple { fields } => G::Tuple(fields.iter().map(mv2g).collect()),
        Value::Enum { discriminator, fields } => G::Enum(*discriminator, fields.iter().map(mv2g).collect()),
        Value::Array { element_value_kind, elements } => G::Array(*element_value_kind, elements.iter().map(mv2g).collect()),
        Value::Map { key_value_kind, value_value_kind, entries } => G::Map(*key_value_kind, *value_value_kind, entries.iter().map(|(k, v)| (mv2g(k), mv2g(v))).collect()),
        other => G::V(other.clone()),
    }
}
