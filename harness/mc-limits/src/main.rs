//! mc-limits: serves C11 C49 (one module per property).
use mc_core::Ctx;

mod c11;
mod c49;
mod sgen;
mod world;

fn main() {
    let ctx = Ctx::from_args();
    match ctx.id.as_str() {
        "C11" => c11::run(ctx),
        "C49" => c49::run(ctx),
        other => mc_core::machinery_error(&format!("mc-limits does not serve {other}")),
    }
}
