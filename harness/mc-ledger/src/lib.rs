//! mc-ledger: shared ledger harness for the engine-level checks.
//!
//! * `Sim<E>`            – `LedgerSimulator` over an in-memory database (cheap snapshots).
//! * `build_world`       – deterministic base state: two accounts with known keys + a set of resources.
//! * `exec` / `exec_cfg` – run one transaction under `catch_unwind` (a panic escaping the engine is data).
//! * `receipt_class`     – coarse outcome label of a receipt (for outcome classes / fingerprints).
//! * `receipt_digest`    – hash of the consensus-relevant parts of a receipt (C01).
//! * `scan_totals`       – independent scan of the whole database: per resource recorded supply vs Σ vaults.
//! * `check_database_quiet` – the engine's own full-database checkers, without printing.
//! * `balances_fp`       – semantic fingerprint helper (node-id independent).
pub use scrypto_test::prelude::*;
pub mod menu;

use radix_engine::blueprints::resource::*;
use radix_engine::define_composite_checker;
use radix_engine::system::checkers::*;
use radix_engine::system::system_db_reader::SystemDatabaseReader;
use radix_substate_store_interface::db_key_mapper::{DatabaseKeyMapper, SpreadPrefixKeyMapper};
use radix_substate_store_interface::interface::ListableSubstateDatabase;
use std::collections::{BTreeMap, BTreeSet};

pub type Sim<E = NoExtension> = LedgerSimulator<E, InMemorySubstateDatabase>;
pub type Snap = LedgerSimulatorSnapshot;

#[derive(Clone, Debug)]
pub struct Acct {
    pub pk: Secp256k1PublicKey,
    pub addr: ComponentAddress,
    pub sig: NonFungibleGlobalId,
}

/// Deterministic base world. All resources are freely mintable/burnable (allow_all) unless noted, so that
/// menus need no badges; `rc` is recallable + freezable + burnable.
#[derive(Clone, Debug)]
pub struct World {
    pub a: Acct,
    pub b: Acct,
    /// divisibility 18, A holds 10
    pub f18: ResourceAddress,
    /// divisibility 2, A holds 10
    pub f2: ResourceAddress,
    /// divisibility 0, A holds 10
    pub f0: ResourceAddress,
    /// integer ids, A holds #1,#2,#3
    pub nf: ResourceAddress,
    /// recallable/freezable fungible, A holds 1000 (helper's fixed supply); B holds some after setup
    pub rc: ResourceAddress,
}

pub fn new_sim() -> Sim<NoExtension> {
    LedgerSimulatorBuilder::new().without_kernel_trace().build()
}

pub fn new_sim_with<E: NativeVmExtension>(ext: E) -> Sim<E> {
    LedgerSimulatorBuilder::new().with_custom_extension(ext).without_kernel_trace().build()
}

pub fn new_sim_genesis(genesis: BabylonSettings) -> Sim<NoExtension> {
    LedgerSimulatorBuilder::new().with_custom_genesis(genesis).without_kernel_trace().build()
}

#[derive(ScryptoSbor, ManifestSbor, Clone, Debug)]
pub struct NfData {
    pub name: String,
    pub level: u32,
}
impl NonFungibleData for NfData {
    const MUTABLE_FIELDS: &'static [&'static str] = &["level"];
}

pub fn build_world<E: NativeVmExtension>(sim: &mut Sim<E>) -> World {
    build_world_opt(sim, true)
}

/// `freezable = false`: `rc` is only recallable (no freeze feature), so that the engine's own
/// ResourceDatabaseChecker (which cannot handle freezable vaults) can be used on this world.
pub fn build_world_opt<E: NativeVmExtension>(sim: &mut Sim<E>, freezable: bool) -> World {
    let (pk_a, _sk_a, a) = sim.new_account(true);
    let (pk_b, _sk_b, b) = sim.new_account(true);
    let acct = |pk: Secp256k1PublicKey, addr| Acct { pk, addr, sig: NonFungibleGlobalId::from_public_key(&pk) };
    let f18 = sim.create_freely_mintable_and_burnable_fungible_resource(OwnerRole::None, Some(dec!(10)), 18, a);
    let f2 = sim.create_freely_mintable_and_burnable_fungible_resource(OwnerRole::None, Some(dec!(10)), 2, a);
    let f0 = sim.create_freely_mintable_and_burnable_fungible_resource(OwnerRole::None, Some(dec!(10)), 0, a);
    let nf = sim.create_freely_mintable_and_burnable_non_fungible_resource(
        OwnerRole::None,
        NonFungibleIdType::Integer,
        Some(vec![
            (NonFungibleLocalId::integer(1), NfData { name: "one".into(), level: 1 }),
            (NonFungibleLocalId::integer(2), NfData { name: "two".into(), level: 2 }),
            (NonFungibleLocalId::integer(3), NfData { name: "three".into(), level: 3 }),
        ]),
        a,
    );
    let rc = if freezable { sim.create_freezeable_token(a) } else { sim.create_recallable_token(a) };
    let w = World { a: acct(pk_a, a), b: acct(pk_b, b), f18, f2, f0, nf, rc };
    // give B a vault of rc with 5
    let m = ManifestBuilder::new()
        .lock_fee_from_faucet()
        .withdraw_from_account(a, rc, dec!(5))
        .try_deposit_entire_worktop_or_abort(b, None)
        .build();
    sim.execute_manifest(m, vec![w.a.sig.clone()]).expect_commit_success();
    w
}

/// Run a manifest; Err(panic message) if a panic escaped the engine (or the simulator's own asserts).
pub fn exec<E: NativeVmExtension>(sim: &mut Sim<E>, manifest: TransactionManifestV1, proofs: Vec<NonFungibleGlobalId>) -> Result<TransactionReceipt, String> {
    mc_core::catch(|| sim.execute_manifest(manifest, proofs))
}

pub fn exec_cfg<E: NativeVmExtension>(
    sim: &mut Sim<E>,
    manifest: TransactionManifestV1,
    proofs: Vec<NonFungibleGlobalId>,
    cfg: ExecutionConfig,
) -> Result<TransactionReceipt, String> {
    mc_core::catch(|| sim.execute_manifest_with_execution_config(manifest, proofs, cfg))
}

/// Leading enum-variant path of a Debug rendering: `ApplicationError(AccountError(VaultDoesNotExist`.
pub fn variant_path(dbg: &str, max_levels: usize) -> String {
    let mut out = String::new();
    let mut levels = 0;
    for c in dbg.chars() {
        if c.is_ascii_alphanumeric() || c == '_' {
            out.push(c);
        } else if c == '(' {
            levels += 1;
            if levels >= max_levels {
                break;
            }
            out.push('(');
        } else {
            break;
        }
    }
    out.trim_end_matches('(').to_string()
}

pub fn receipt_class(r: &TransactionReceipt) -> String {
    match &r.result {
        TransactionResult::Commit(c) => match &c.outcome {
            TransactionOutcome::Success(_) => "commit-success".to_string(),
            TransactionOutcome::Failure(e) => format!("commit-failure:{}", variant_path(&format!("{e:?}"), 3)),
        },
        TransactionResult::Reject(rj) => format!("reject:{}", variant_path(&format!("{:?}", rj.reason), 3)),
        TransactionResult::Abort(a) => format!("abort:{}", variant_path(&format!("{:?}", a.reason), 2)),
    }
}

pub fn is_success(r: &TransactionReceipt) -> bool {
    matches!(&r.result, TransactionResult::Commit(c) if matches!(c.outcome, TransactionOutcome::Success(_)))
}
pub fn is_commit_failure(r: &TransactionReceipt) -> bool {
    matches!(&r.result, TransactionResult::Commit(c) if matches!(c.outcome, TransactionOutcome::Failure(_)))
}
pub fn failure_text(r: &TransactionReceipt) -> String {
    match &r.result {
        TransactionResult::Commit(c) => match &c.outcome {
            TransactionOutcome::Success(_) => String::new(),
            TransactionOutcome::Failure(e) => format!("{e:?}"),
        },
        TransactionResult::Reject(rj) => format!("{:?}", rj.reason),
        TransactionResult::Abort(a) => format!("{:?}", a.reason),
    }
}

/// Hash of the consensus-relevant parts of a receipt. Diagnostic-only parts (execution trace, fee
/// details/cost breakdown, debug information, resource usage) are excluded by construction.
pub fn receipt_digest(r: &TransactionReceipt) -> Hash {
    let mut bytes = vec![];
    bytes.extend(scrypto_encode(&r.fee_summary).unwrap());
    bytes.extend(scrypto_encode(&r.costing_parameters).unwrap());
    match &r.result {
        TransactionResult::Commit(c) => {
            bytes.push(1);
            bytes.extend(scrypto_encode(&c.state_updates).unwrap());
            bytes.extend(scrypto_encode(&c.fee_source).unwrap());
            bytes.extend(scrypto_encode(&c.fee_destination).unwrap());
            bytes.extend(scrypto_encode(&c.application_events).unwrap());
            bytes.extend(scrypto_encode(&c.application_logs).unwrap());
            bytes.extend(scrypto_encode(&c.performed_nullifications).unwrap());
            match &c.outcome {
                TransactionOutcome::Success(o) => {
                    bytes.push(1);
                    bytes.extend(scrypto_encode(o).unwrap());
                }
                TransactionOutcome::Failure(e) => {
                    bytes.push(0);
                    bytes.extend(format!("{e:?}").into_bytes());
                }
            }
            bytes.extend(format!("{:?}", c.next_epoch()).into_bytes());
        }
        TransactionResult::Reject(rj) => {
            bytes.push(2);
            bytes.extend(format!("{:?}", rj.reason).into_bytes());
        }
        TransactionResult::Abort(a) => {
            bytes.push(3);
            bytes.extend(format!("{:?}", a.reason).into_bytes());
        }
    }
    hash(bytes)
}

// ------------------------------------------------------------------------------------------------
// independent whole-database scan of resource totals
// ------------------------------------------------------------------------------------------------

#[derive(Debug, Clone, Default, PartialEq, Eq)]
pub struct ResTotals {
    /// recorded total supply (None when the resource does not track supply)
    pub supply: Option<Decimal>,
    /// Σ of vault balance fields
    pub vault_sum: Decimal,
    /// per vault balances
    pub vaults: BTreeMap<NodeId, Decimal>,
    /// for non-fungibles: ids held in vault index partitions (id -> number of vaults holding it)
    pub nf_ids: BTreeMap<NonFungibleLocalId, u32>,
    /// for non-fungibles: Σ over vaults of |ids in index| (must equal vault_sum)
    pub nf_index_count: u64,
}

pub fn all_nodes<D: ListableSubstateDatabase>(db: &D) -> BTreeSet<NodeId> {
    let mut s = BTreeSet::new();
    for pk in db.list_partition_keys() {
        let (node, _) = SpreadPrefixKeyMapper::from_db_partition_key(&pk);
        s.insert(node);
    }
    s
}

/// Scan every vault and resource manager in the database. Err = structural problem (undecodable / missing).
pub fn scan_totals<D: SubstateDatabase + ListableSubstateDatabase>(db: &D) -> Result<BTreeMap<ResourceAddress, ResTotals>, String> {
    let reader = SystemDatabaseReader::new(db);
    let mut out: BTreeMap<ResourceAddress, ResTotals> = BTreeMap::new();
    for node in all_nodes(db) {
        match node.entity_type() {
            Some(EntityType::GlobalFungibleResourceManager) => {
                let ra = ResourceAddress::new_or_panic(node.0);
                let e = out.entry(ra).or_default();
                if let Ok(p) = reader.read_typed_object_field::<FungibleResourceManagerTotalSupplyFieldPayload>(
                    &node,
                    ModuleId::Main,
                    FungibleResourceManagerField::TotalSupply.field_index(),
                ) {
                    e.supply = Some(p.fully_update_and_into_latest_version());
                }
            }
            Some(EntityType::GlobalNonFungibleResourceManager) => {
                let ra = ResourceAddress::new_or_panic(node.0);
                let e = out.entry(ra).or_default();
                if let Ok(p) = reader.read_typed_object_field::<NonFungibleResourceManagerTotalSupplyFieldPayload>(
                    &node,
                    ModuleId::Main,
                    NonFungibleResourceManagerField::TotalSupply.field_index(),
                ) {
                    e.supply = Some(p.fully_update_and_into_latest_version());
                }
            }
            Some(EntityType::InternalFungibleVault) => {
                let info = reader.get_object_info(node).map_err(|e| format!("vault {node:?}: no object info: {e:?}"))?;
                let ra = ResourceAddress::new_or_panic(info.get_outer_object().into_node_id().0);
                let bal = reader
                    .read_typed_object_field::<FungibleVaultBalanceFieldPayload>(&node, ModuleId::Main, FungibleVaultField::Balance.field_index())
                    .map_err(|e| format!("vault {node:?}: balance unreadable: {e:?}"))?
                    .fully_update_and_into_latest_version()
                    .amount();
                let e = out.entry(ra).or_default();
                e.vault_sum = e.vault_sum.checked_add(bal).ok_or("vault sum overflow")?;
                e.vaults.insert(node, bal);
            }
            Some(EntityType::InternalNonFungibleVault) => {
                let info = reader.get_object_info(node).map_err(|e| format!("nf vault {node:?}: no object info: {e:?}"))?;
                let ra = ResourceAddress::new_or_panic(info.get_outer_object().into_node_id().0);
                let bal = reader
                    .read_typed_object_field::<NonFungibleVaultBalanceFieldPayload>(&node, ModuleId::Main, NonFungibleVaultField::Balance.field_index())
                    .map_err(|e| format!("nf vault {node:?}: balance unreadable: {e:?}"))?
                    .fully_update_and_into_latest_version()
                    .amount;
                let e = out.entry(ra).or_default();
                e.vault_sum = e.vault_sum.checked_add(bal).ok_or("vault sum overflow")?;
                e.vaults.insert(node, bal);
                let it = reader
                    .collection_iter(&node, ModuleId::Main, NonFungibleVaultCollection::NonFungibleIndex.collection_index())
                    .map_err(|e| format!("nf vault {node:?}: index unreadable: {e:?}"))?;
                for (k, _v) in it {
                    if let SubstateKey::Map(m) = k {
                        let id: NonFungibleLocalId = scrypto_decode(&m).map_err(|e| format!("nf vault {node:?}: bad id key {e:?}"))?;
                        *e.nf_ids.entry(id).or_insert(0) += 1;
                        e.nf_index_count += 1;
                    }
                }
            }
            _ => {}
        }
    }
    Ok(out)
}

/// The invariant of C04 over a scan: supply == Σ vaults (when tracked), balances >= 0, NF count == |ids|, ids unique.
pub fn totals_invariant(t: &BTreeMap<ResourceAddress, ResTotals>) -> Result<(), String> {
    for (ra, r) in t {
        if let Some(s) = r.supply {
            if s != r.vault_sum {
                return Err(format!("resource {ra:?}: recorded supply {s} != sum of vaults {}", r.vault_sum));
            }
        }
        for (v, b) in &r.vaults {
            if b.is_negative() {
                return Err(format!("vault {v:?} of {ra:?} negative balance {b}"));
            }
        }
        if ra.as_node_id().entity_type() == Some(EntityType::GlobalNonFungibleResourceManager) {
            if Decimal::from(r.nf_index_count) != r.vault_sum {
                return Err(format!("nf resource {ra:?}: Σ vault amounts {} != number of indexed ids {}", r.vault_sum, r.nf_index_count));
            }
            if let Some((id, n)) = r.nf_ids.iter().find(|(_, n)| **n > 1) {
                return Err(format!("nf resource {ra:?}: id {id} held by {n} vaults"));
            }
        }
    }
    Ok(())
}

// ------------------------------------------------------------------------------------------------
// the engine's own checkers, quietly
// ------------------------------------------------------------------------------------------------

define_composite_checker! {
    QuietCompositeChecker,
    [
        ResourceDatabaseChecker,
        RoleAssignmentDatabaseChecker,
        ComponentRoyaltyDatabaseChecker,
    ]
}

define_composite_checker! {
    QuietStructureChecker,
    [
        RoleAssignmentDatabaseChecker,
        ComponentRoyaltyDatabaseChecker,
    ]
}

/// The engine's own checkers, without printing. Err(description) on the first failure.
/// * always: kernel checker (ownership / references) + system checker (schema conformance of every substate,
///   entity type vs blueprint) + role-assignment + component-royalty checkers;
/// * `resources`: additionally the engine's ResourceDatabaseChecker + event checker (NOTE: that checker has
///   `todo!()` arms for freezable vaults' extra fields, so it can only be used on worlds without freezable
///   resources) and, when `reconcile`, the ResourceReconciler of database totals against the event history.
pub fn check_database_quiet<E: NativeVmExtension>(sim: &Sim<E>, resources: bool, reconcile: bool) -> Result<(), String> {
    let db = sim.substate_db();
    let r = mc_core::catch(|| -> Result<(), String> {
        let mut kernel_checker = KernelDatabaseChecker::new();
        kernel_checker.check_db(db).map_err(|e| format!("kernel checker: {e:?}"))?;
        if resources {
            let mut checker = SystemDatabaseChecker::new(QuietCompositeChecker::new(Default::default(), Default::default(), Default::default()));
            let db_results = checker.check_db(db).map_err(|e| format!("system checker: {e:?}"))?;
            if !db_results.1 .1.is_empty() {
                return Err(format!("role assignment violations: {:?}", db_results.1 .1));
            }
            let event_results = SystemEventChecker::<ResourceEventChecker>::new()
                .check_all_events(db, sim.collected_events())
                .map_err(|e| format!("event checker: {e:?}"))?;
            if reconcile {
                ResourceReconciler::reconcile(&db_results.1 .0, &event_results).map_err(|e| format!("reconciler: {e:?}"))?;
            }
        } else {
            let mut checker = SystemDatabaseChecker::new(QuietStructureChecker::new(Default::default(), Default::default()));
            let db_results = checker.check_db(db).map_err(|e| format!("system checker: {e:?}"))?;
            if !db_results.1 .0.is_empty() {
                return Err(format!("role assignment violations: {:?}", db_results.1 .0));
            }
        }
        Ok(())
    });
    match r {
        Ok(x) => x,
        Err(p) => Err(format!("checker panicked: {p} @ {}", mc_core::last_panic_location())),
    }
}

// ------------------------------------------------------------------------------------------------
// semantic fingerprints
// ------------------------------------------------------------------------------------------------

/// Node-id independent summary: for each listed component, for each listed resource: balance (+ NF ids);
/// plus recorded total supplies. Transaction hashes (hence new node ids) differ between histories, so the raw
/// database bytes cannot be used for deduplication; this summary is what the resource properties observe.
pub fn balances_fp<E: NativeVmExtension>(sim: &mut Sim<E>, comps: &[ComponentAddress], resources: &[ResourceAddress]) -> Vec<u8> {
    let mut s = String::new();
    for c in comps {
        for r in resources {
            let bal = sim.get_component_balance(*c, *r);
            s.push_str(&format!("{bal};"));
            if r.as_node_id().entity_type() == Some(EntityType::GlobalNonFungibleResourceManager) {
                let mut ids: Vec<String> = vec![];
                for v in sim.get_component_vaults(*c, *r) {
                    if let Some((_, it)) = sim.inspect_non_fungible_vault(v) {
                        ids.extend(it.map(|i| i.to_string()));
                    }
                }
                ids.sort();
                s.push_str(&ids.join(","));
                s.push(';');
            }
        }
        s.push('|');
    }
    let reader = SystemDatabaseReader::new(sim.substate_db());
    for r in resources {
        let node = r.as_node_id();
        let sup = if node.entity_type() == Some(EntityType::GlobalFungibleResourceManager) {
            reader
                .read_typed_object_field::<FungibleResourceManagerTotalSupplyFieldPayload>(node, ModuleId::Main, FungibleResourceManagerField::TotalSupply.field_index())
                .ok()
                .map(|p| p.fully_update_and_into_latest_version())
        } else {
            reader
                .read_typed_object_field::<NonFungibleResourceManagerTotalSupplyFieldPayload>(node, ModuleId::Main, NonFungibleResourceManagerField::TotalSupply.field_index())
                .ok()
                .map(|p| p.fully_update_and_into_latest_version())
        };
        s.push_str(&format!("{sup:?};"));
    }
    s.into_bytes()
}
