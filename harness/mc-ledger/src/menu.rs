//! The standard transaction menu `M_std` (DESIGN §4.5): a small, collision-forcing alphabet of
//! transactions over the base world, ordered simplest first. Every entry is a function of the world
//! (addresses) and the *current* simulator state (for vault ids / consensus round), so it adapts.
use crate::*;

#[derive(Clone, Debug)]
pub struct Extras {
    pub pool: ComponentAddress,
    pub pool_unit: ResourceAddress,
    pub validator: ComponentAddress,
    pub stake_unit: ResourceAddress,
    pub claim_nft: ResourceAddress,
}

/// Additional setup on top of `build_world`: a one-resource pool over f18 (manager rule allow_all),
/// and the genesis validator's addresses.
pub fn build_extras<E: NativeVmExtension>(sim: &mut Sim<E>, _w: &World, pool_resource: ResourceAddress) -> Extras {
    let (pool, pool_unit) = sim.create_one_resource_pool(pool_resource, rule!(allow_all));
    let vkey = Secp256k1PrivateKey::from_u64(1u64).unwrap().public_key();
    let validator = sim.get_active_validator_with_key(&vkey);
    let vs = sim.get_validator_info(validator);
    Extras { pool, pool_unit, validator, stake_unit: vs.stake_unit_resource, claim_nft: vs.claim_nft }
}

#[derive(Clone, Copy, Debug, PartialEq, Eq, PartialOrd, Ord, Hash)]
pub enum Tx {
    TransferF,
    TransferNf,
    TransferNfBack,
    MintF,
    MintF2,
    MintNf7,
    BurnF,
    BurnNf2,
    RecallRc,
    FreezeB,
    UnfreezeB,
    WithdrawRcFromB,
    FailAssert,
    FailDangling,
    ContingentFail,
    ContingentOk,
    Faucet,
    PoolContribute,
    PoolRedeem,
    Stake,
    Unstake,
    Claim,
    NextRound,
    CreateToken,
    ProofDrop,
    ProofsDropSmallFirst,
    // structure-changing transactions (C05)
    NewAccount,
    DepositToVirtual,
    SecurifyB,
    CreateIdentity,
    CreateAccessController,
    LockerStore,
    PublishWat,
    CreateTwoPool,
}

pub const STD_MENU: &[Tx] = &[
    Tx::TransferF,
    Tx::TransferNf,
    Tx::TransferNfBack,
    Tx::MintF,
    Tx::MintF2,
    Tx::MintNf7,
    Tx::BurnF,
    Tx::BurnNf2,
    Tx::RecallRc,
    Tx::FreezeB,
    Tx::UnfreezeB,
    Tx::WithdrawRcFromB,
    Tx::FailAssert,
    Tx::FailDangling,
    Tx::ContingentFail,
    Tx::ContingentOk,
    Tx::Faucet,
    Tx::PoolContribute,
    Tx::PoolRedeem,
    Tx::Stake,
    Tx::Unstake,
    Tx::Claim,
    Tx::NextRound,
    Tx::CreateToken,
    Tx::ProofDrop,
    Tx::ProofsDropSmallFirst,
];

/// Structure-changing menu (new global components, owned objects inside KV entries, packages).
pub const STRUCT_MENU: &[Tx] = &[
    Tx::NewAccount,
    Tx::DepositToVirtual,
    Tx::SecurifyB,
    Tx::CreateIdentity,
    Tx::CreateAccessController,
    Tx::LockerStore,
    Tx::PublishWat,
    Tx::CreateTwoPool,
];

pub enum Built {
    Manifest(TransactionManifestV1, Vec<NonFungibleGlobalId>),
    /// a consensus round update to the given round (system transaction through the simulator helper)
    Round,
}

fn first_vault<E: NativeVmExtension>(sim: &mut Sim<E>, c: ComponentAddress, r: ResourceAddress) -> Option<InternalAddress> {
    sim.get_component_vaults(c, r).first().map(|n| InternalAddress::new_or_panic(n.0))
}

pub fn build_tx<E: NativeVmExtension>(sim: &mut Sim<E>, w: &World, x: &Extras, tx: Tx) -> Built {
    let a = w.a.addr;
    let b = w.b.addr;
    let sa = vec![w.a.sig.clone()];
    let sb = vec![w.b.sig.clone()];
    let mb = || ManifestBuilder::new().lock_fee_from_faucet();
    match tx {
        Tx::TransferF => Built::Manifest(mb().withdraw_from_account(a, w.f18, dec!(1)).try_deposit_entire_worktop_or_abort(b, None).build(), sa),
        Tx::TransferNf => Built::Manifest(
            mb().withdraw_non_fungibles_from_account(a, w.nf, [NonFungibleLocalId::integer(1)]).try_deposit_entire_worktop_or_abort(b, None).build(),
            sa,
        ),
        Tx::TransferNfBack => Built::Manifest(
            mb().withdraw_non_fungibles_from_account(b, w.nf, [NonFungibleLocalId::integer(1)]).try_deposit_entire_worktop_or_abort(a, None).build(),
            sb,
        ),
        Tx::MintF => Built::Manifest(mb().mint_fungible(w.f18, dec!(1)).try_deposit_entire_worktop_or_abort(a, None).build(), sa),
        Tx::MintF2 => Built::Manifest(mb().mint_fungible(w.f2, dec!("1.5")).try_deposit_entire_worktop_or_abort(a, None).build(), sa),
        Tx::MintNf7 => Built::Manifest(
            mb().mint_non_fungible(w.nf, [(NonFungibleLocalId::integer(7), NfData { name: "seven".into(), level: 7 })])
                .try_deposit_entire_worktop_or_abort(a, None)
                .build(),
            sa,
        ),
        Tx::BurnF => Built::Manifest(mb().withdraw_from_account(a, w.f18, dec!(1)).burn_all_from_worktop(w.f18).build(), sa),
        Tx::BurnNf2 => Built::Manifest(mb().burn_non_fungible_in_account(a, NonFungibleGlobalId::new(w.nf, NonFungibleLocalId::integer(2))).build(), sa),
        Tx::RecallRc => match first_vault(sim, b, w.rc) {
            Some(v) => Built::Manifest(mb().recall(v, dec!(1)).try_deposit_entire_worktop_or_abort(a, None).build(), vec![]),
            None => Built::Manifest(mb().build(), vec![]),
        },
        Tx::FreezeB => match first_vault(sim, b, w.rc) {
            Some(v) => Built::Manifest(mb().freeze_withdraw(v).build(), vec![]),
            None => Built::Manifest(mb().build(), vec![]),
        },
        Tx::UnfreezeB => match first_vault(sim, b, w.rc) {
            Some(v) => Built::Manifest(mb().unfreeze_withdraw(v).build(), vec![]),
            None => Built::Manifest(mb().build(), vec![]),
        },
        Tx::WithdrawRcFromB => Built::Manifest(mb().withdraw_from_account(b, w.rc, dec!(1)).try_deposit_entire_worktop_or_abort(a, None).build(), sb),
        Tx::FailAssert => Built::Manifest(
            mb().withdraw_from_account(a, w.f18, dec!(1)).assert_worktop_contains(w.f18, dec!(2)).try_deposit_entire_worktop_or_abort(b, None).build(),
            sa,
        ),
        Tx::FailDangling => Built::Manifest(mb().withdraw_from_account(a, w.f18, dec!(1)).build(), sa),
        Tx::ContingentFail => Built::Manifest(
            ManifestBuilder::new()
                .lock_fee(a, dec!(10))
                .lock_contingent_fee(b, dec!(5))
                .withdraw_from_account(a, w.f18, dec!(1))
                .assert_worktop_contains(w.f18, dec!(2))
                .try_deposit_entire_worktop_or_abort(b, None)
                .build(),
            vec![w.a.sig.clone(), w.b.sig.clone()],
        ),
        Tx::ContingentOk => Built::Manifest(
            ManifestBuilder::new()
                .lock_fee(a, dec!(10))
                .lock_contingent_fee(b, dec!(5))
                .withdraw_from_account(a, w.f18, dec!(1))
                .try_deposit_entire_worktop_or_abort(b, None)
                .build(),
            vec![w.a.sig.clone(), w.b.sig.clone()],
        ),
        Tx::Faucet => Built::Manifest(mb().get_free_xrd_from_faucet().try_deposit_entire_worktop_or_abort(a, None).build(), vec![]),
        Tx::PoolContribute => Built::Manifest(
            mb().withdraw_from_account(a, w.f18, dec!(2))
                .take_all_from_worktop(w.f18, "c")
                .call_method_with_name_lookup(x.pool, "contribute", |l| (l.bucket("c"),))
                .try_deposit_entire_worktop_or_abort(a, None)
                .build(),
            sa,
        ),
        Tx::PoolRedeem => Built::Manifest(
            mb().withdraw_from_account(a, x.pool_unit, dec!(1))
                .take_all_from_worktop(x.pool_unit, "u")
                .call_method_with_name_lookup(x.pool, "redeem", |l| (l.bucket("u"),))
                .try_deposit_entire_worktop_or_abort(a, None)
                .build(),
            sa,
        ),
        Tx::Stake => Built::Manifest(
            mb().withdraw_from_account(a, XRD, dec!(10))
                .take_all_from_worktop(XRD, "s")
                .stake_validator(x.validator, "s")
                .try_deposit_entire_worktop_or_abort(a, None)
                .build(),
            sa,
        ),
        Tx::Unstake => Built::Manifest(
            mb().withdraw_from_account(a, x.stake_unit, dec!(5))
                .take_all_from_worktop(x.stake_unit, "u")
                .unstake_validator(x.validator, "u")
                .try_deposit_entire_worktop_or_abort(a, None)
                .build(),
            sa,
        ),
        Tx::Claim => Built::Manifest(
            mb().withdraw_from_account(a, x.claim_nft, dec!(1))
                .take_all_from_worktop(x.claim_nft, "n")
                .claim_xrd(x.validator, "n")
                .try_deposit_entire_worktop_or_abort(a, None)
                .build(),
            sa,
        ),
        Tx::NextRound => Built::Round,
        Tx::CreateToken => Built::Manifest(mb().new_token_fixed(OwnerRole::None, metadata!(), dec!(100)).try_deposit_entire_worktop_or_abort(a, None).build(), sa),
        Tx::NewAccount => Built::Manifest(mb().new_account().try_deposit_entire_worktop_or_abort(a, None).build(), vec![]),
        Tx::DepositToVirtual => {
            let pk = Secp256k1PrivateKey::from_u64(777).unwrap().public_key();
            let v = ComponentAddress::preallocated_account_from_public_key(&pk);
            Built::Manifest(mb().withdraw_from_account(a, w.f18, dec!(1)).try_deposit_entire_worktop_or_abort(v, None).build(), sa)
        }
        Tx::SecurifyB => Built::Manifest(mb().call_method(b, "securify", manifest_args!()).try_deposit_entire_worktop_or_abort(a, None).build(), sb),
        Tx::CreateIdentity => Built::Manifest(mb().create_identity().try_deposit_entire_worktop_or_abort(a, None).build(), vec![]),
        Tx::CreateAccessController => Built::Manifest(
            mb().withdraw_from_account(a, w.f0, dec!(1))
                .take_all_from_worktop(w.f0, "asset")
                .create_access_controller("asset", rule!(allow_all), rule!(allow_all), rule!(allow_all), Some(1))
                .build(),
            sa,
        ),
        Tx::LockerStore => Built::Manifest(
            mb().allocate_global_address(LOCKER_PACKAGE, ACCOUNT_LOCKER_BLUEPRINT, "locker_res", "locker")
                .call_function_with_name_lookup(LOCKER_PACKAGE, ACCOUNT_LOCKER_BLUEPRINT, ACCOUNT_LOCKER_INSTANTIATE_IDENT, |l| {
                    (
                        OwnerRole::None,
                        rule!(allow_all),
                        rule!(deny_all),
                        rule!(allow_all),
                        rule!(deny_all),
                        Some(l.address_reservation("locker_res")),
                    )
                })
                .withdraw_from_account(a, w.f18, dec!(1))
                .take_all_from_worktop(w.f18, "gift")
                .call_method_with_name_lookup("locker", ACCOUNT_LOCKER_STORE_IDENT, |l| (b, l.bucket("gift"), false))
                .build(),
            sa,
        ),
        Tx::PublishWat => {
            let code = wat2wasm(MINI_WAT);
            Built::Manifest(
                mb().publish_package_advanced(None, code, single_function_package_definition("Test", "f"), metadata_init!(), OwnerRole::None).build(),
                vec![],
            )
        }
        Tx::CreateTwoPool => Built::Manifest(
            mb().call_function(
                POOL_PACKAGE,
                TWO_RESOURCE_POOL_BLUEPRINT,
                TWO_RESOURCE_POOL_INSTANTIATE_IDENT,
                TwoResourcePoolInstantiateManifestInput {
                    resource_addresses: (w.f18.into(), w.f2.into()),
                    pool_manager_rule: rule!(allow_all).into(),
                    owner_role: OwnerRole::None.into(),
                    address_reservation: None,
                },
            )
            .build(),
            vec![],
        ),
        // two overlapping proofs of different amounts on the same vault; the smaller one (created last) is dropped first
        Tx::ProofsDropSmallFirst => Built::Manifest(
            mb().create_proof_from_account_of_amount(a, w.f18, dec!(2))
                .create_proof_from_account_of_amount(a, w.f18, dec!(1))
                .pop_from_auth_zone("small")
                .drop_proof("small")
                .drop_all_proofs()
                .build(),
            sa,
        ),
        Tx::ProofDrop => Built::Manifest(mb().create_proof_from_account_of_amount(a, w.f18, dec!(1)).drop_all_proofs().build(), sa),
    }
}

/// Execute one menu transaction under catch_unwind.
pub fn run_tx<E: NativeVmExtension>(sim: &mut Sim<E>, w: &World, x: &Extras, tx: Tx) -> Result<TransactionReceipt, String> {
    match build_tx(sim, w, x, tx) {
        Built::Manifest(m, proofs) => exec(sim, m, proofs),
        Built::Round => mc_core::catch(|| {
            let cur = sim.get_consensus_manager_state().round;
            sim.advance_to_round(Round::of(cur.number() + 1))
        }),
    }
}

/// Smallest package accepted by the WASM validator: one exported function `Test_f` returning an empty tuple buffer.
pub const MINI_WAT: &str = r#"
(module
  (func $Test_f (param $0 i64) (result i64)
    ;; encode the SBOR unit value `()` = 5c 21 00 at address 0 and return slice (ptr=0,len=3)
    (i32.store8 (i32.const 0) (i32.const 92))
    (i32.store8 (i32.const 1) (i32.const 33))
    (i32.store8 (i32.const 2) (i32.const 0))
    (i64.const 3)
  )
  (memory $0 1)
  (export "memory" (memory $0))
  (export "Test_f" (func $Test_f))
)
"#;
