//! C12 — the transaction state cache reads back its own writes.
//!
//! Statement: during a transaction every substate read returns what the database holds overlaid with the
//! transaction's own node creations, writes and removals; a limited key scan or drain returns as many distinct
//! present entries as the limit allows (a drain also removes exactly those); a limited sorted scan returns the
//! first present entries in database key order. The state changes produced at the end are exactly the overlaid
//! differences, and reverting a failed transaction keeps only the force-written substates.
//!
//! Shape H: every history (up to a depth) of state-changing `Track` operations over a small colliding key
//! space on four base databases is executed on the real `Track<InMemorySubstateDatabase>` and on a reference
//! overlay (plain maps). After every transition three throw-away copies of the real object (the object is not
//! `Clone`; a copy is a replay of the history) are put through
//!   A. `finalize` + `to_state_updates`           — updates applied to the base must equal the overlay and
//!                                                   touch only written substates;
//!   B. `revert_non_force_write_changes`, a read sweep, `finalize` — only force-written substates survive;
//!   C. an observer sweep                          — `scan_keys` / `scan_sorted` with every limit, `get` of every
//!                                                   key, the scans again on the now fully cached partitions, a
//!                                                   `drain`, and the reads once more.
//! So every *reachable state* gets every read/scan/terminal observation, while the explored alphabet only
//! contains operations that change the cache. See `DEVIATIONS` at the bottom for the differences from DESIGN.md.
use crate::explore::bfs_chunked;
use mc_core::{BfsStats, Ctx, Level, Machine};
use radix_common::prelude::*;
use radix_engine::track::interface::{CommitableSubstateStore, IOAccess, NodeSubstates, TrackedSubstateInfo};
use radix_engine::track::{ReadOnly, Track, TrackedSubstateValue, TrackedSubstates, Write};
use radix_engine_interface::types::IndexedScryptoValue;
use radix_substate_store_impls::memory_db::InMemorySubstateDatabase;
use radix_substate_store_interface::db_key_mapper::{DatabaseKeyMapper, SpreadPrefixKeyMapper};
use radix_substate_store_interface::interface::*;
use serde_json::json;
use std::collections::{BTreeMap, BTreeSet};
use std::sync::atomic::{AtomicU64, Ordering};
use std::sync::{Mutex, OnceLock};

type Db = InMemorySubstateDatabase;
type Tr = Track<'static, Db>;
type V = (String, String);

fn v(key: impl Into<String>, what: String) -> V {
    (key.into(), what)
}

// ------------------------------------------------------------------------------------------------
// key space
// ------------------------------------------------------------------------------------------------

/// (node 0..2, partition 0 = map / 1 = sorted, key 0..3)
type Key = (u8, u8, u8);
const MAP: u8 = 0;
const SORTED: u8 = 1;
const BASE_VAL: u8 = 9;

fn node_id(n: u8) -> NodeId {
    let mut raw = [0x11u8; NodeId::LENGTH];
    raw[0] = EntityType::GlobalGenericComponent as u8;
    raw[NodeId::LENGTH - 1] = n;
    NodeId(raw)
}

fn part_num(p: u8) -> PartitionNumber {
    PartitionNumber(if p == MAP { 65 } else { 66 })
}

fn skey(p: u8, k: u8) -> SubstateKey {
    if p == MAP {
        SubstateKey::Map(vec![k + 1])
    } else {
        // (0,a) (1,b) (1,c): two entries share a prefix so that the order inside a prefix is the mapper's
        SubstateKey::Sorted(([0, if k == 0 { 0 } else { 1 }], vec![0x0a + k]))
    }
}

fn unkey(p: u8, k: &SubstateKey) -> u8 {
    (0..3).find(|i| &skey(p, *i) == k).unwrap_or(255)
}

fn val(x: u8) -> IndexedScryptoValue {
    IndexedScryptoValue::from_typed(&x)
}

fn unval(v: &IndexedScryptoValue) -> u8 {
    v.as_typed::<u8>().unwrap_or(255)
}

/// keys of a partition in *database* order (the order the statement prescribes for sorted scans), computed
/// with the real key mapper (its order properties are C16's subject, not this check's)
fn db_order(p: u8) -> [u8; 3] {
    let mut ks: Vec<(Vec<u8>, u8)> = (0..3).map(|k| (SpreadPrefixKeyMapper::to_db_sort_key(&skey(p, k)).0, k)).collect();
    ks.sort();
    [ks[0].1, ks[1].1, ks[2].1]
}

pub struct Base {
    pub name: &'static str,
    pub db: Db,
    pub content: BTreeMap<Key, u8>,
}

impl Base {
    fn has_node(&self, n: u8) -> bool {
        self.content.keys().any(|k| k.0 == n)
    }
}

fn bases() -> &'static Vec<Base> {
    static B: OnceLock<Vec<Base>> = OnceLock::new();
    B.get_or_init(|| {
        let mk = |name: &'static str, keys: &[Key]| {
            let mut db = InMemorySubstateDatabase::standard();
            let mut content = BTreeMap::new();
            for k in keys {
                db.update_substate_raw(node_id(k.0), part_num(k.1), &skey(k.1, k.2), val(BASE_VAL).as_slice().to_vec());
                content.insert(*k, BASE_VAL);
            }
            Base { name, db, content }
        };
        let b1 = vec![(0, MAP, 0), (0, MAP, 2)];
        let mut b2 = b1.clone();
        b2.extend([(0, SORTED, 0), (0, SORTED, 1), (0, SORTED, 2)]);
        let mut b3 = b2.clone();
        b3.extend([(1, MAP, 1), (1, SORTED, 1)]);
        vec![mk("B0-empty", &[]), mk("B1-map{k1,k3}", &b1), mk("B2-map{k1,k3}+sorted{s1,s2,s3}", &b2), mk("B3-B2+node2{map k2, sorted s2}", &b3)]
    })
}

// ------------------------------------------------------------------------------------------------
// operations
// ------------------------------------------------------------------------------------------------

#[derive(Clone, Copy, Debug, PartialEq, Eq, PartialOrd, Ord, Hash)]
pub enum Kind {
    /// create node `n` with the substates of variant `var` (see `create_variant`)
    Create { n: u8, var: u8 },
    Get(Key),
    Set(Key, u8),
    Remove(Key),
    ScanKeys { n: u8, p: u8, limit: u8 },
    Drain { n: u8, p: u8, limit: u8 },
    ScanSorted { n: u8, limit: u8 },
    /// what `close_substate` does for a FORCE_WRITE handle; only on substates that are in the cache
    ForceWrite(Key),
    Revert,
}

#[derive(Clone, Copy, Debug, PartialEq, Eq, PartialOrd, Ord, Hash)]
pub struct Op {
    pub kind: Kind,
    /// 0 = the IO-access callback always succeeds; k>0 = it reports an error at its k-th invocation
    pub fail_at: u8,
}

fn kind_name(k: &Kind) -> &'static str {
    match k {
        Kind::Create { .. } => "create_node",
        Kind::Get(_) => "get",
        Kind::Set(..) => "set",
        Kind::Remove(_) => "remove",
        Kind::ScanKeys { .. } => "scan_keys",
        Kind::Drain { .. } => "drain",
        Kind::ScanSorted { .. } => "scan_sorted",
        Kind::ForceWrite(_) => "force_write",
        Kind::Revert => "revert",
    }
}

fn create_variant(focus: &[(u8, u8)], n: u8, var: u8) -> Vec<(Key, u8)> {
    // substates of the focused partitions of node n; var 0: none, 1: first key of each, 2: first two keys of each
    let mut out = vec![];
    for (fnode, p) in focus {
        if *fnode == n {
            for k in 0..var.min(2) {
                out.push(((n, *p, k), 1));
            }
        }
    }
    out
}

/// What the real object returned.
#[derive(Clone, Debug, PartialEq, Eq)]
pub enum Obs {
    Unit,
    Value(Option<u8>),
    Keys(Vec<u8>),
    Entries(Vec<(u8, u8)>),
    /// the callback reported its error and the call returned it
    Failed,
    Panicked(String),
}

fn apply_real(track: &mut Tr, focus: &[(u8, u8)], op: &Op) -> Obs {
    let mut calls = 0u8;
    let fail_at = op.fail_at;
    let mut cb = |_io: IOAccess| -> Result<(), ()> {
        calls = calls.saturating_add(1);
        if fail_at != 0 && calls == fail_at {
            Err(())
        } else {
            Ok(())
        }
    };
    let r = mc_core::catch(|| -> Result<Obs, ()> {
        Ok(match op.kind {
            Kind::Create { n, var } => {
                let mut subs: NodeSubstates = BTreeMap::new();
                for ((_, p, k), x) in create_variant(focus, n, var) {
                    subs.entry(part_num(p)).or_default().insert(skey(p, k), val(x));
                }
                track.create_node(node_id(n), subs, &mut cb)?;
                Obs::Unit
            }
            Kind::Get((n, p, k)) => Obs::Value(track.get_substate(&node_id(n), part_num(p), &skey(p, k), &mut cb)?.map(unval)),
            Kind::Set((n, p, k), x) => {
                track.set_substate(node_id(n), part_num(p), skey(p, k), val(x), &mut cb)?;
                Obs::Unit
            }
            Kind::Remove((n, p, k)) => Obs::Value(track.remove_substate(&node_id(n), part_num(p), &skey(p, k), &mut cb)?.as_ref().map(unval)),
            Kind::ScanKeys { n, p, limit } => {
                let ks = if p == MAP {
                    track.scan_keys::<MapKey, (), _>(&node_id(n), part_num(p), limit as u32, &mut cb)?
                } else {
                    track.scan_keys::<SortedKey, (), _>(&node_id(n), part_num(p), limit as u32, &mut cb)?
                };
                Obs::Keys(ks.iter().map(|k| unkey(p, k)).collect())
            }
            Kind::Drain { n, p, limit } => {
                let es = if p == MAP {
                    track.drain_substates::<MapKey, (), _>(&node_id(n), part_num(p), limit as u32, &mut cb)?
                } else {
                    track.drain_substates::<SortedKey, (), _>(&node_id(n), part_num(p), limit as u32, &mut cb)?
                };
                Obs::Entries(es.iter().map(|(k, x)| (unkey(p, k), unval(x))).collect())
            }
            Kind::ScanSorted { n, limit } => {
                let es = track.scan_sorted_substates(&node_id(n), part_num(SORTED), limit as u32, &mut cb)?;
                Obs::Entries(es.iter().map(|(k, x)| (unkey(SORTED, &SubstateKey::Sorted(k.clone())), unval(x))).collect())
            }
            Kind::ForceWrite((n, p, k)) => {
                track.force_write(&node_id(n), &part_num(p), &skey(p, k));
                Obs::Unit
            }
            Kind::Revert => {
                track.revert_non_force_write_changes();
                Obs::Unit
            }
        })
    });
    match r {
        Ok(Ok(o)) => o,
        Ok(Err(())) => Obs::Failed,
        Err(p) => Obs::Panicked(format!("{p} @{}", mc_core::last_panic_location())),
    }
}

// ------------------------------------------------------------------------------------------------
// reference model (plain maps; written from the statement)
// ------------------------------------------------------------------------------------------------

#[derive(Clone)]
pub struct Model {
    base: &'static Base,
    /// the transaction's own writes: Some(v) = written, None = removed
    overlay: BTreeMap<Key, Option<u8>>,
    /// nodes created by this transaction (and not reverted)
    created: BTreeSet<u8>,
    /// substates a write-type operation (create / set / remove / drain) of this transaction was applied to
    written: BTreeSet<Key>,
    /// substates that an operation put into the cache (needed by the precondition of force_write)
    cached: BTreeSet<Key>,
    /// force-written substates: value they had at force_write time, and whether they had been written by then
    fw: BTreeMap<Key, (Option<u8>, bool)>,
    reverted: bool,
    /// a call returned the callback's error; the only continuation the engine has is the revert
    failed: bool,
    /// a continuation after a revert disagreed with the overlay (informational); not explored further
    diverged: bool,
}

impl Model {
    fn new(base: &'static Base) -> Self {
        Model { base, overlay: BTreeMap::new(), created: BTreeSet::new(), written: BTreeSet::new(), cached: BTreeSet::new(), fw: BTreeMap::new(), reverted: false, failed: false, diverged: false }
    }
    fn current(&self, k: &Key) -> Option<u8> {
        match self.overlay.get(k) {
            Some(x) => *x,
            None => self.base.content.get(k).copied(),
        }
    }
    fn node_exists(&self, n: u8) -> bool {
        self.base.has_node(n) || self.created.contains(&n)
    }
    fn present(&self, n: u8, p: u8) -> Vec<u8> {
        (0..3).filter(|k| self.current(&(n, p, *k)).is_some()).collect()
    }
    /// the model after `revert_non_force_write_changes`: base ⊕ force-written substates only
    fn reverted(&self) -> Model {
        let mut m = Model::new(self.base);
        for (k, (x, was_written)) in &self.fw {
            if *was_written {
                m.overlay.insert(*k, *x);
                m.written.insert(*k);
            }
        }
        m.cached = self.cached.iter().filter(|k| self.base.has_node(k.0)).copied().collect();
        m.reverted = true;
        m
    }
    fn write(&mut self, k: Key, x: Option<u8>) {
        self.overlay.insert(k, x);
        self.written.insert(k);
        self.cached.insert(k);
    }

    // ---- oracles for the observers (used by `step` and by the sweeps)

    fn check_get(&self, k: &Key, got: &Obs, ctx: &str) -> Result<(), V> {
        let want = self.current(k);
        if *got != Obs::Value(want) {
            return Err(v(format!("{ctx}get"), format!("get{k:?} returned {got:?}, the database overlaid with the transaction's writes holds {want:?}")));
        }
        Ok(())
    }
    fn check_scan_keys(&self, n: u8, p: u8, limit: u8, got: &Obs, ctx: &str) -> Result<(), V> {
        let Obs::Keys(ks) = got else { return Err(v(format!("{ctx}scan_keys:result"), format!("scan_keys({n},{p},{limit}) gave {got:?}"))) };
        let present = self.present(n, p);
        let distinct: BTreeSet<u8> = ks.iter().copied().collect();
        if distinct.len() != ks.len() {
            return Err(v(format!("{ctx}scan_keys:duplicate"), format!("scan_keys({n},{p},{limit}) returned {ks:?}")));
        }
        if let Some(bad) = ks.iter().find(|k| !present.contains(k)) {
            return Err(v(format!("{ctx}scan_keys:absent-key"), format!("scan_keys({n},{p},{limit}) returned {ks:?}; key {bad} is not present (present: {present:?})")));
        }
        let want = present.len().min(limit as usize);
        if ks.len() != want {
            return Err(v(format!("{ctx}scan_keys:count"), format!("scan_keys({n},{p},{limit}) returned {} keys {ks:?}; present {present:?}, so {want} expected", ks.len())));
        }
        Ok(())
    }
    fn check_scan_sorted(&self, n: u8, limit: u8, got: &Obs, ctx: &str) -> Result<(), V> {
        let Obs::Entries(es) = got else { return Err(v(format!("{ctx}scan_sorted:result"), format!("scan_sorted({n},{limit}) gave {got:?}"))) };
        let want: Vec<(u8, u8)> = db_order(SORTED).iter().filter_map(|k| self.current(&(n, SORTED, *k)).map(|x| (*k, x))).take(limit as usize).collect();
        if *es != want {
            return Err(v(format!("{ctx}scan_sorted"), format!("scan_sorted({n},{limit}) returned {es:?}; the first present entries in database key order are {want:?}")));
        }
        Ok(())
    }
    /// checks the result of a drain and applies it
    fn check_apply_drain(&mut self, n: u8, p: u8, limit: u8, got: &Obs, ctx: &str) -> Result<usize, V> {
        let Obs::Entries(es) = got else { return Err(v(format!("{ctx}drain:result"), format!("drain({n},{p},{limit}) gave {got:?}"))) };
        let present = self.present(n, p);
        let distinct: BTreeSet<u8> = es.iter().map(|e| e.0).collect();
        if distinct.len() != es.len() {
            return Err(v(format!("{ctx}drain:duplicate"), format!("drain({n},{p},{limit}) returned {es:?}")));
        }
        for (k, x) in es {
            let cur = self.current(&(n, p, *k));
            if cur != Some(*x) {
                return Err(v(format!("{ctx}drain:entry"), format!("drain({n},{p},{limit}) returned ({k},{x}); the current value of that key is {cur:?}")));
            }
        }
        let want = present.len().min(limit as usize);
        if es.len() != want {
            return Err(v(format!("{ctx}drain:count"), format!("drain({n},{p},{limit}) returned {} entries {es:?}; present {present:?}, so {want} expected", es.len())));
        }
        for (k, _) in es {
            self.write((n, p, *k), None);
        }
        Ok(es.len())
    }
}

// ------------------------------------------------------------------------------------------------
// the machine
// ------------------------------------------------------------------------------------------------

pub struct St {
    track: Tr,
    model: Model,
    hist: Vec<Op>,
}

/// Violations found by the look-ahead copies are collected here (and not returned from `step`), so that a state
/// whose *revert* or *finalize* misbehaves is still expanded. Per key the smallest case is kept.
#[derive(Default)]
pub struct Side {
    violations: Mutex<BTreeMap<String, (usize, String, String, Vec<String>)>>,
    counters: Mutex<BTreeMap<String, u64>>,
    info: Mutex<BTreeMap<String, u64>>,
    sweeps: AtomicU64,
    /// smallest history whose continuation after a revert disagrees with the overlay (informational)
    post_revert_example: Mutex<Option<(usize, String, String)>>,
}

impl Side {
    fn violation(&self, key: String, what: String, hist: &[Op], tail: &str) {
        let mut h: Vec<String> = hist.iter().map(|o| format!("{o:?}")).collect();
        h.push(tail.to_string());
        let cand = (h.len(), format!("{h:?}"), what, h);
        let mut g = self.violations.lock().unwrap();
        match g.get(&key) {
            Some(old) if (old.0, &old.1) <= (cand.0, &cand.1) => {}
            _ => {
                g.insert(key, cand);
            }
        }
    }
    fn count(&self, label: &str) {
        *self.counters.lock().unwrap().entry(label.to_string()).or_insert(0) += 1;
    }
    fn info(&self, label: &str) {
        *self.info.lock().unwrap().entry(label.to_string()).or_insert(0) += 1;
    }
}

pub struct TrackMachine {
    pub base: &'static Base,
    /// the (node, partition) pairs the alphabet ranges over
    pub focus: Vec<(u8, u8)>,
    /// include the callback-error environment
    pub failing: bool,
    pub side: Side,
}

fn canonical(ts: &TrackedSubstates) -> Vec<u8> {
    // sorted nodes → is_new → sorted partitions → substates in db-key order → variant + values.
    // Dropped: `range_read` (only feeds the fee for range reads; no Track operation reads it), the insertion
    // order of the IndexMaps (never observed by the oracle: observations are maps/sets), empty partitions and
    // empty not-new nodes (every Track operation treats a missing and an empty tracked partition alike).
    let mut out = vec![];
    let mut nodes: Vec<_> = ts.tracked_nodes.iter().collect();
    nodes.sort_by_key(|(id, _)| **id);
    for (id, node) in nodes {
        let mut parts: Vec<_> = node.tracked_partitions.iter().filter(|(_, p)| !p.substates.is_empty()).collect();
        if parts.is_empty() && !node.is_new {
            continue;
        }
        parts.sort_by_key(|(n, _)| **n);
        out.push(0xA0);
        out.push(id.0[NodeId::LENGTH - 1]);
        out.push(node.is_new as u8);
        for (pn, part) in parts {
            out.push(0xA1);
            out.push(pn.0);
            for (dbk, ts) in &part.substates {
                out.push(0xA2);
                out.extend_from_slice(&dbk.0);
                let b = |x: &IndexedScryptoValue| unval(x);
                match &ts.substate_value {
                    TrackedSubstateValue::New(s) => out.extend([1, b(&s.value)]),
                    TrackedSubstateValue::ReadOnly(ReadOnly::NonExistent) => out.extend([2]),
                    TrackedSubstateValue::ReadOnly(ReadOnly::Existent(s)) => out.extend([3, b(&s.value)]),
                    TrackedSubstateValue::ReadExistAndWrite(o, Write::Update(s)) => out.extend([4, b(o), b(&s.value)]),
                    TrackedSubstateValue::ReadExistAndWrite(o, Write::Delete) => out.extend([5, b(o)]),
                    TrackedSubstateValue::ReadNonExistAndWrite(s) => out.extend([6, b(&s.value)]),
                    TrackedSubstateValue::WriteOnly(Write::Update(s)) => out.extend([7, b(&s.value)]),
                    TrackedSubstateValue::WriteOnly(Write::Delete) => out.extend([8]),
                    TrackedSubstateValue::Garbage => out.extend([9]),
                }
            }
        }
    }
    for (n, p) in &ts.deleted_partitions {
        out.extend([0xA3, n.0[NodeId::LENGTH - 1], p.0]);
    }
    out
}

/// Independent interpretation of `StateUpdates`: apply to a copy of the base content.
fn apply_updates(base: &Base, upd: &StateUpdates) -> Result<(BTreeMap<Key, u8>, BTreeSet<Key>), String> {
    let mut content = base.content.clone();
    let mut touched = BTreeSet::new();
    for (node, nu) in &upd.by_node {
        let n = (0..3u8).find(|n| node_id(*n) == *node).ok_or_else(|| format!("update for unknown node {node:?}"))?;
        let NodeStateUpdates::Delta { by_partition } = nu;
        for (pn, pu) in by_partition {
            let p = [MAP, SORTED].into_iter().find(|p| part_num(*p) == *pn).ok_or_else(|| format!("update for unknown partition {pn:?}"))?;
            match pu {
                PartitionStateUpdates::Delta { by_substate } => {
                    for (sk, u) in by_substate {
                        let k = unkey(p, sk);
                        if k == 255 {
                            return Err(format!("update for unknown key {sk:?}"));
                        }
                        touched.insert((n, p, k));
                        match u {
                            DatabaseUpdate::Set(bytes) => {
                                let x = IndexedScryptoValue::from_slice(bytes).map(|x| unval(&x)).unwrap_or(255);
                                content.insert((n, p, k), x);
                            }
                            DatabaseUpdate::Delete => {
                                content.remove(&(n, p, k));
                            }
                        }
                    }
                }
                PartitionStateUpdates::Batch(b) => return Err(format!("unexpected batch update {b:?} (no partition was deleted)")),
            }
        }
    }
    Ok((content, touched))
}

impl TrackMachine {
    fn replay_real(&self, hist: &[Op]) -> Tr {
        let mut t = Track::new(&self.base.db);
        for op in hist {
            let _ = apply_real(&mut t, &self.focus, op);
        }
        t
    }

    /// finalize + to_state_updates of `track` against `model`
    fn check_finalize(&self, track: Tr, model: &Model, ctx: &str) -> Result<Vec<u8>, V> {
        let (ts, _db) = match mc_core::catch(|| track.finalize()) {
            Ok(Ok(x)) => x,
            Ok(Err(e)) => return Err(v(format!("{ctx}finalize:error"), format!("finalize returned {e:?}"))),
            Err(p) => return Err(v(format!("{ctx}finalize:panic"), format!("finalize panicked: {p}"))),
        };
        let canon = canonical(&ts);
        let (new_nodes, upd) = mc_core::catch(|| ts.to_state_updates()).map_err(|p| v(format!("{ctx}to_state_updates:panic"), p))?;
        let (after, touched) = apply_updates(self.base, &upd).map_err(|e| v(format!("{ctx}state-updates:shape"), e))?;
        let mut want = BTreeMap::new();
        for n in 0..2u8 {
            for p in [MAP, SORTED] {
                for k in 0..3u8 {
                    if let Some(x) = model.current(&(n, p, k)) {
                        want.insert((n, p, k), x);
                    }
                }
            }
        }
        if after != want {
            return Err(v(
                format!("{ctx}state-updates:content"),
                format!("base ⊕ state updates = {after:?}, but base ⊕ the transaction's writes = {want:?} (updates: {upd:?})"),
            ));
        }
        if let Some(k) = touched.iter().find(|k| !model.written.contains(k)) {
            return Err(v(
                format!("{ctx}state-updates:untouched-substate"),
                format!("state updates contain an entry for {k:?}, which this transaction never wrote (written: {:?}; updates: {upd:?})", model.written),
            ));
        }
        let got_new: BTreeSet<u8> = new_nodes.iter().map(|id| id.0[NodeId::LENGTH - 1]).collect();
        if got_new != model.created {
            self.side.info(&format!("{ctx}new-node-set-differs-from-created-nodes"));
        }
        Ok(canon)
    }

    /// observer sweep on a throw-away copy
    fn sweep(&self, track: &mut Tr, model: &mut Model, ctx: &str, with_drain: bool) -> Result<(), V> {
        let f = &self.focus;
        let parts: Vec<(u8, u8)> = [(0, MAP), (0, SORTED), (1, MAP), (1, SORTED)].into_iter().filter(|(n, _)| model.node_exists(*n)).collect();
        let scans = |track: &mut Tr, model: &Model, tag: &str| -> Result<(), V> {
            for (n, p) in &parts {
                for limit in 0..=4u8 {
                    let o = apply_real(track, f, &Op { kind: Kind::ScanKeys { n: *n, p: *p, limit }, fail_at: 0 });
                    model.check_scan_keys(*n, *p, limit, &o, &format!("{ctx}{tag}"))?;
                    if *p == SORTED {
                        let o = apply_real(track, f, &Op { kind: Kind::ScanSorted { n: *n, limit }, fail_at: 0 });
                        model.check_scan_sorted(*n, limit, &o, &format!("{ctx}{tag}"))?;
                    }
                }
            }
            Ok(())
        };
        // substate info is not part of the statement: informational only
        for (n, p) in &parts {
            for k in 0..3u8 {
                let key = (*n, *p, k);
                let info = track.get_tracked_substate_info(&node_id(*n), part_num(*p), &skey(*p, k));
                let unmodified = matches!(info, TrackedSubstateInfo::Unmodified);
                if unmodified && model.current(&key) != model.base.content.get(&key).copied() {
                    self.side.info(&format!("{ctx}substate-info:Unmodified-although-value-differs-from-base"));
                } else if !unmodified && !model.written.contains(&key) && !model.created.contains(n) {
                    self.side.info(&format!("{ctx}substate-info:modified-although-never-written"));
                }
            }
        }
        scans(track, model, "uncached:")?;
        let gets = |track: &mut Tr, model: &Model, tag: &str| -> Result<(), V> {
            for (n, p) in &parts {
                for k in 0..3u8 {
                    let o = apply_real(track, f, &Op { kind: Kind::Get((*n, *p, k)), fail_at: 0 });
                    model.check_get(&(*n, *p, k), &o, &format!("{ctx}{tag}"))?;
                }
            }
            Ok(())
        };
        gets(track, model, "")?;
        scans(track, model, "cached:")?;
        if with_drain {
            for (n, p) in &parts {
                let o = apply_real(track, f, &Op { kind: Kind::Drain { n: *n, p: *p, limit: 2 }, fail_at: 0 });
                model.check_apply_drain(*n, *p, 2, &o, &format!("{ctx}sweep-"))?;
            }
            gets(track, model, "after-drain:")?;
            scans(track, model, "after-drain:")?;
        }
        Ok(())
    }

    /// A mismatch seen in a state that lies after a revert. The statement quantifies over sequences of
    /// creations, reads, writes, removals, scans and drains and mentions the revert only as the end of a failed
    /// transaction, so what the cache answers *after* a revert is outside of it: recorded as informational (with the
    /// smallest reproducer), never as a violation.
    fn post_revert(&self, key: &str, what: String, hist: &[Op], tail: &str) {
        self.side.info(&format!("post-revert (outside the statement): {key}"));
        let mut h: Vec<String> = hist.iter().map(|o| format!("{o:?}")).collect();
        if !tail.is_empty() {
            h.push(tail.to_string());
        }
        let cand = (h.len(), format!("{h:?}"), format!("{key}: {what}"));
        let mut g = self.side.post_revert_example.lock().unwrap();
        match &*g {
            Some(old) if (old.0, &old.1) <= (cand.0, &cand.1) => {}
            _ => *g = Some(cand),
        }
    }

    /// The look-ahead copies. Returns the fingerprint part (canonical forms of the finalised copy and of the
    /// reverted-and-finalised copy).
    fn probes(&self, hist: &[Op], model: &Model) -> Vec<u8> {
        let mut fp = vec![];
        if model.diverged {
            return fp;
        }
        self.side.sweeps.fetch_add(1, Ordering::Relaxed);
        // A: finalize now (undefined after a failed call: the engine reverts first)
        if !model.failed {
            match self.check_finalize(self.replay_real(hist), model, "finalize:") {
                Ok(c) => {
                    fp.extend(c);
                    self.side.count(if model.reverted { "post-revert continuation; finalize: state updates == overlaid differences" } else { "finalize: state updates == overlaid differences" });
                }
                Err((k, w)) if model.reverted => self.post_revert(&k, w, hist, "<finalize; to_state_updates>"),
                Err((k, w)) => self.side.violation(k, w, hist, "<finalize; to_state_updates>"),
            }
        }
        fp.push(0xB0);
        if !model.reverted {
            // B1: revert, finalize — "reverting a failed transaction keeps only the force-written substates"
            let mut t = self.replay_real(hist);
            let m = model.reverted();
            let r = match apply_real(&mut t, &self.focus, &Op { kind: Kind::Revert, fail_at: 0 }) {
                Obs::Unit => self.check_finalize(t, &m, "after-revert:"),
                o => Err(v("revert:result", format!("revert_non_force_write_changes gave {o:?}"))),
            };
            match r {
                Ok(c) => {
                    fp.extend(c);
                    self.side.count(if model.failed { "failed call; revert; finalize: only force-written substates survive" } else { "revert; finalize: only force-written substates survive" });
                }
                Err((k, w)) => self.side.violation(k, w, hist, "<revert; finalize; to_state_updates>"),
            }
            // B2: revert, read sweep (informational, see `post_revert`)
            let mut t = self.replay_real(hist);
            let mut m = model.reverted();
            let _ = apply_real(&mut t, &self.focus, &Op { kind: Kind::Revert, fail_at: 0 });
            match self.sweep(&mut t, &mut m, "reads-after-revert:", false) {
                Ok(()) => self.side.count("revert; read sweep agrees with base + force-written substates"),
                Err((k, w)) => self.post_revert(&k, w, hist, "<revert; scan sweep; get sweep; scan sweep>"),
            }
        }
        fp.push(0xB1);
        // C: observer sweep
        if !model.failed {
            let mut t = self.replay_real(hist);
            let mut m = model.clone();
            let tail = "<scan sweep; get sweep; scan sweep; drain 2; get sweep; scan sweep; finalize>";
            match self.sweep(&mut t, &mut m, "sweep:", true).and_then(|()| self.check_finalize(t, &m, "sweep:")) {
                Ok(_) => self.side.count(if model.reverted { "post-revert continuation; observer sweep agrees with the overlay" } else { "observer sweep agrees with the overlay" }),
                Err((k, w)) if model.reverted => self.post_revert(&k, w, hist, tail),
                Err((k, w)) => self.side.violation(k, w, hist, tail),
            }
        }
        fp
    }

    fn model_fp(m: &Model) -> Vec<u8> {
        let mut out = vec![0xC0];
        for (k, x) in &m.overlay {
            out.extend([k.0, k.1, k.2, x.map_or(0xEE, |x| x)]);
        }
        out.push(0xC1);
        for n in &m.created {
            out.push(*n);
        }
        out.push(0xC2);
        for k in &m.written {
            out.extend([k.0, k.1, k.2]);
        }
        out.push(0xC3);
        for k in &m.cached {
            out.extend([k.0, k.1, k.2]);
        }
        out.push(0xC4);
        for (k, (x, w)) in &m.fw {
            out.extend([k.0, k.1, k.2, x.map_or(0xEE, |x| x), *w as u8]);
        }
        out.extend([0xC5, m.reverted as u8, m.failed as u8, m.diverged as u8]);
        out
    }
}

impl TrackMachine {
    fn step_inner(&self, st: &mut St, op: &Op) -> Result<String, V> {
        let obs = apply_real(&mut st.track, &self.focus, op);
        st.hist.push(*op);
        let m = &mut st.model;
        let class: String = match (&obs, op.fail_at) {
            (Obs::Panicked(p), _) => return Err(v(format!("panic:{}", kind_name(&op.kind)), format!("{op:?} panicked: {p}"))),
            (Obs::Failed, 0) => return Err(v("harness:callback-error", format!("{op:?} reported a callback error although the callback never fails"))),
            (Obs::Failed, _) => {
                m.failed = true;
                "call failed at the injected callback error".into()
            }
            _ => match op.kind {
                Kind::Create { n, var } => {
                    m.created.insert(n);
                    for (k, x) in create_variant(&self.focus, n, var) {
                        m.write(k, Some(x));
                    }
                    "create_node".into()
                }
                Kind::Get(k) => {
                    m.check_get(&k, &obs, "")?;
                    m.cached.insert(k);
                    if m.current(&k).is_some() { "get:present" } else { "get:absent" }.into()
                }
                Kind::Set(k, x) => {
                    m.write(k, Some(x));
                    "set".into()
                }
                Kind::Remove(k) => {
                    m.check_get(&k, &obs, "remove:returned-")?;
                    let was = m.current(&k).is_some();
                    m.write(k, None);
                    if was { "remove:present" } else { "remove:absent" }.into()
                }
                Kind::ScanKeys { n, p, limit } => {
                    m.check_scan_keys(n, p, limit, &obs, "")?;
                    "scan_keys".into()
                }
                Kind::ScanSorted { n, limit } => {
                    m.check_scan_sorted(n, limit, &obs, "")?;
                    "scan_sorted".into()
                }
                Kind::Drain { n, p, limit } => {
                    let got = m.check_apply_drain(n, p, limit, &obs, "")?;
                    if got == limit as usize { "drain:limit-reached" } else { "drain:partition-exhausted" }.into()
                }
                Kind::ForceWrite(k) => {
                    let e = (m.current(&k), m.written.contains(&k));
                    m.fw.insert(k, e);
                    "force_write".into()
                }
                Kind::Revert => {
                    *m = m.reverted();
                    "revert".into()
                }
            },
        };
        let class = if op.fail_at != 0 && !st.model.failed { format!("{class} (fewer callbacks than the injection point)") } else { class };
        Ok(class)
    }
}

impl Machine for TrackMachine {
    type Op = Op;
    type St = St;

    fn init(&self) -> St {
        St { track: Track::new(&self.base.db), model: Model::new(self.base), hist: vec![] }
    }

    fn ops(&self, st: &St, _depth: usize) -> Vec<Op> {
        let m = &st.model;
        let ok = |kind| Op { kind, fail_at: 0 };
        if m.failed {
            return vec![ok(Kind::Revert)];
        }
        let mut ops = vec![];
        let mut failing = vec![];
        let mut nodes: Vec<u8> = self.focus.iter().map(|f| f.0).collect();
        nodes.dedup();
        for n in nodes {
            if !m.node_exists(n) {
                for var in 0..3u8 {
                    ops.push(ok(Kind::Create { n, var }));
                }
                failing.push((Kind::Create { n, var: 2 }, 2));
            }
        }
        for (n, p) in self.focus.iter().copied().filter(|(n, _)| m.node_exists(*n)) {
            for k in 0..3u8 {
                let key = (n, p, k);
                ops.push(ok(Kind::Get(key)));
                ops.push(ok(Kind::Set(key, 1)));
                ops.push(ok(Kind::Set(key, 2)));
                ops.push(ok(Kind::Remove(key)));
                failing.push((Kind::Get(key), 2));
                failing.push((Kind::Set(key, 2), 1));
                failing.push((Kind::Remove(key), 3));
                // precondition of force_write (what close_substate guarantees): the substate was opened, i.e. it
                // is in the cache; and the engine only force-writes substates of nodes that pre-exist
                // (FORCE_WRITE is combined with UNMODIFIED_BASE, refused on substates of new nodes)
                if m.cached.contains(&key) && self.base.has_node(n) {
                    ops.push(ok(Kind::ForceWrite(key)));
                }
            }
            for limit in 1..=3u8 {
                ops.push(ok(Kind::Drain { n, p, limit }));
            }
            failing.push((Kind::Drain { n, p, limit: 3 }, 3));
            failing.push((Kind::Drain { n, p, limit: 1 }, 1));
            failing.push((Kind::ScanKeys { n, p, limit: 3 }, 2));
            if p == SORTED {
                failing.push((Kind::ScanSorted { n, limit: 3 }, 2));
            }
        }
        if !m.reverted {
            ops.push(ok(Kind::Revert));
        }
        if self.failing && !m.reverted {
            for (kind, max_k) in failing {
                for k in 1..=max_k {
                    ops.push(Op { kind, fail_at: k });
                }
            }
        }
        ops
    }

    fn step(&self, st: &mut St, op: &Op) -> Result<String, V> {
        let after_revert = st.model.reverted;
        match self.step_inner(st, op) {
            Err((k, w)) if after_revert && !k.starts_with("harness:") => {
                self.post_revert(&k, w, &st.hist, "");
                st.model.diverged = true;
                Ok("post-revert continuation disagrees with the overlay (informational, not explored further)".into())
            }
            r => r,
        }
    }

    fn terminal(&self, st: &St) -> bool {
        st.model.diverged
    }

    /// canonical `TrackedSubstates` of the finalised copy (`range_read` dropped) + canonical `TrackedSubstates`
    /// of the reverted copy (this exposes the private force-write table) + the reference model's bookkeeping
    /// (adding model state can only split states, never merge different ones)
    fn fingerprint(&self, st: &St) -> Vec<u8> {
        // (computed here and not in `step`, so that replays of a history do not repeat the look-ahead)
        let mut out = self.probes(&st.hist, &st.model);
        out.extend(Self::model_fp(&st.model));
        mc_core::fp128(&out)
    }
}

// ------------------------------------------------------------------------------------------------
// driver
// ------------------------------------------------------------------------------------------------

struct Config {
    base: usize,
    focus: Vec<(u8, u8)>,
    depth: usize,
    failing: bool,
}

fn focus_name(f: &[(u8, u8)]) -> String {
    f.iter().map(|(n, p)| format!("N{}.{}", n + 1, if *p == MAP { "map" } else { "sorted" })).collect::<Vec<_>>().join("+")
}

pub fn run(ctx: Ctx) -> ! {
    // the map partition must have a database order that differs from the logical order (built-in premise)
    if db_order(MAP) == [0, 1, 2] || db_order(SORTED)[0] != 0 {
        mc_core::machinery_error(&format!("C12: key choice does not scramble the order: map {:?} sorted {:?}", db_order(MAP), db_order(SORTED)));
    }
    if ctx.replay.is_some() {
        replay(ctx);
    }
    let all: Vec<(u8, u8)> = vec![(0, MAP), (0, SORTED), (1, MAP), (1, SORTED)];
    let (d_single, d_node, d_full) = ctx.pick((4, 3, 2), (6, 4, 3));
    let mut configs = vec![];
    for b in 0..4 {
        for f in [vec![(0, MAP)], vec![(0, SORTED)]] {
            configs.push(Config { base: b, focus: f, depth: d_single, failing: true });
        }
        configs.push(Config { base: b, focus: vec![(0, MAP), (0, SORTED)], depth: d_node, failing: true });
        configs.push(Config { base: b, focus: all.clone(), depth: d_full, failing: true });
    }
    // the second node of B3 has its own content; the created second node of the other bases
    for f in [vec![(1, MAP)], vec![(1, SORTED)]] {
        configs.push(Config { base: 3, focus: f.clone(), depth: d_single, failing: true });
        configs.push(Config { base: 1, focus: f, depth: d_single, failing: true });
    }
    let wall_cap = ctx.pick(50.0, 1100.0);
    let mut total = BfsStats::default();
    let mut per_config = vec![];
    let mut exhaustive = true;
    let mut sweeps = 0u64;
    let mut post_revert: Option<(usize, String, String)> = None;
    for c in &configs {
        let base = &bases()[c.base];
        let m = TrackMachine { base, focus: c.focus.clone(), failing: c.failing, side: Side::default() };
        let tag = format!("{}|{}", base.name, focus_name(&c.focus));
        let left = (wall_cap - ctx.elapsed_s()).max(1.0);
        let s = bfs_chunked(&ctx, &m, &tag, c.depth, 5_000_000, left, 4_000);
        for (key, (_, _, what, hist)) in m.side.violations.into_inner().unwrap() {
            ctx.violation(key, what, json!({"base": tag, "history": hist}));
        }
        for (l, n) in m.side.counters.into_inner().unwrap() {
            ctx.class(&l, n);
        }
        for (l, n) in m.side.info.into_inner().unwrap() {
            ctx.info(&l, n);
        }
        sweeps += m.side.sweeps.load(Ordering::Relaxed);
        if let Some((len, hist, what)) = m.side.post_revert_example.into_inner().unwrap() {
            let cand = (len, format!("base {tag}: {hist}"), what);
            if post_revert.as_ref().map_or(true, |old: &(usize, String, String)| (cand.0, &cand.1) < (old.0, &old.1)) {
                post_revert = Some(cand);
            }
        }
        println!("C12 {tag} depth {}/{} states {} transitions {} capped {} ({:.1}s)", s.depth_completed, c.depth, s.states, s.transitions, s.capped, ctx.elapsed_s());
        exhaustive &= !s.capped;
        per_config.push(json!({"base": base.name, "focus": focus_name(&c.focus), "depth": c.depth, "depth_completed": s.depth_completed, "states": s.states, "transitions": s.transitions, "capped": s.capped, "alphabet_max": s.alphabet_max}));
        total.add(&s);
    }
    let mut cov = total.coverage();
    cov.insert("configurations".into(), json!(per_config));
    cov.insert("lookahead_probe_rounds".into(), json!(sweeps));
    cov.insert(
        "bounds".into(),
        json!(format!(
            "4 base databases x focus sets (one partition: depth {d_single}; both partitions of node 1: depth {d_node}; 2 nodes x 2 partitions: depth {d_full}); 3 keys per partition, written values {{1,2}}, base value 9; alphabet = create_node (3 contents), get, set, remove, drain(limit 1..3), force_write, revert (once) + the same calls with the IO callback failing at its k-th invocation (k<=3, then only revert); every reached state additionally gets finalize, revert+reads+finalize and a scan/get/drain sweep (limits 0..4) on replayed copies"
        )),
    );
    ctx.note(DEVIATIONS);
    if let Some((_, hist, what)) = &post_revert {
        ctx.note(format!(
            "INFORMATIONAL (outside the statement: the cache is used after revert_non_force_write_changes): smallest history whose continuation after the revert disagrees with 'database + force-written substates': {hist} -> {what}"
        ));
        println!("INFO post-revert example: {hist} -> {what}");
    }
    let nontrivial = total.states;
    ctx.finish(
        Level::ModelChecking,
        "distinct states (canonical TrackedSubstates of the finalised and of the reverted copy + model bookkeeping) summed over configurations",
        nontrivial,
        exhaustive,
        cov,
        &[
            "interface preconditions respected: create_node only for nodes that neither the base nor the transaction has; no operation on a node that does not exist; scan_sorted only on the sorted partition; key type parameter matches the partition; delete_partition and transient substates excluded (C07)",
            "force_write only on cached substates of pre-existing nodes (close_substate after open; the engine pairs FORCE_WRITE with UNMODIFIED_BASE which is refused on new nodes)",
            "revert at most once per history; after a call that returned the callback's error the only continuation is revert (what the engine does)",
            "scan_keys / drain may return any subset of the right size; only scan_sorted has a prescribed order (database key order computed with the real SpreadPrefixKeyMapper, which C16 checks)",
            "state updates may contain entries only for substates the transaction wrote (set/remove/drain/create), including writes that restore the base value; the new-node set and get_tracked_substate_info are informational",
            "values are SBOR u8 without owned nodes or references",
        ],
    )
}

const DEVIATIONS: &str = "Deviations from DESIGN.md C12: (1) finalize and revert;finalize are not terminal ops of the alphabet but are run on a replayed copy of EVERY reached state, together with an observer sweep (scan_keys/scan_sorted limits 0..4, get of every key, drain) — the explored alphabet keeps only cache-changing operations; (2) revert is additionally explored as a non-terminal op (reads/writes after revert, as the engine's fee finalisation does); (3) instead of one alphabet over 2 nodes x 2 partitions to depth 4/6, focus sets are explored (single partition deeper, full key space shallower) because Track operations on different partitions interact only through the per-node is_new flag and revert; (4) the error environment ends in revert (the statement says nothing about the cache after a failed call other than through revert).";

fn parse_key(s: &str) -> Option<Key> {
    // "(0, 1, 2)"
    let j = s.find(')')?;
    let i = s[..j].rfind('(')?;
    let v: Vec<u8> = s[i + 1..j].split(',').filter_map(|x| x.trim().parse().ok()).collect();
    if v.len() == 3 {
        Some((v[0], v[1], v[2]))
    } else {
        None
    }
}

fn parse_op(s: &str) -> Option<Op> {
    // Debug form: Op { kind: Set((0, 0, 1), 2), fail_at: 0 }
    let num = |key: &str| -> Option<u8> {
        let i = s.find(key)? + key.len();
        let rest = &s[i..];
        let end = rest.find(|c: char| !c.is_ascii_digit()).unwrap_or(rest.len());
        rest[..end].parse().ok()
    };
    let fail_at = num("fail_at: ")?;
    let body = &s[s.find("kind: ")? + 6..];
    let kind = if body.starts_with("Create") {
        Kind::Create { n: num("n: ")?, var: num("var: ")? }
    } else if body.starts_with("Get") {
        Kind::Get(parse_key(body)?)
    } else if body.starts_with("Set") {
        let k = parse_key(body)?;
        let after = &body[body.find(')')? + 1..];
        let x: u8 = after.trim_start_matches(',').trim().split(')').next()?.trim().parse().ok()?;
        Kind::Set(k, x)
    } else if body.starts_with("Remove") {
        Kind::Remove(parse_key(body)?)
    } else if body.starts_with("ScanKeys") {
        Kind::ScanKeys { n: num("n: ")?, p: num("p: ")?, limit: num("limit: ")? }
    } else if body.starts_with("Drain") {
        Kind::Drain { n: num("n: ")?, p: num("p: ")?, limit: num("limit: ")? }
    } else if body.starts_with("ScanSorted") {
        Kind::ScanSorted { n: num("n: ")?, limit: num("limit: ")? }
    } else if body.starts_with("ForceWrite") {
        Kind::ForceWrite(parse_key(body)?)
    } else if body.starts_with("Revert") {
        Kind::Revert
    } else {
        return None;
    };
    Some(Op { kind, fail_at })
}

fn replay(ctx: Ctx) -> ! {
    let case = ctx.read_replay_case().unwrap_or_else(|| mc_core::machinery_error("no replay case"));
    let tag = case.get("base").and_then(|b| b.as_str()).unwrap_or("").to_string();
    let (bname, fname) = tag.split_once('|').unwrap_or((&tag, ""));
    let base = bases().iter().find(|b| b.name == bname).unwrap_or_else(|| mc_core::machinery_error(&format!("unknown base {bname}")));
    let mut focus = vec![];
    for part in fname.split('+') {
        let n = if part.starts_with("N2") { 1 } else { 0 };
        let p = if part.ends_with("sorted") { SORTED } else { MAP };
        focus.push((n, p));
    }
    let hist: Vec<String> = case.get("history").and_then(|h| h.as_array()).map(|a| a.iter().filter_map(|x| x.as_str().map(|s| s.to_string())).collect()).unwrap_or_default();
    let m = TrackMachine { base, focus, failing: true, side: Side::default() };
    let mut st = m.init();
    for (i, s) in hist.iter().enumerate() {
        if s.starts_with('<') {
            println!("step {i}: {s} (look-ahead copy, executed after every step)");
            continue;
        }
        let op = parse_op(s).unwrap_or_else(|| mc_core::machinery_error(&format!("cannot parse op {s}")));
        // the look-ahead copies run when the fingerprint is taken
        match mc_core::catch(|| m.step(&mut st, &op).map(|c| (c, m.fingerprint(&st)))) {
            Ok(Ok((class, _))) => println!("step {i}: {op:?} -> {class}"),
            Ok(Err((k, w))) => {
                println!("step {i}: {op:?} -> VIOLATION {k}: {w}");
                ctx.violation(k, w, case.clone());
                break;
            }
            Err(p) => {
                println!("step {i}: {op:?} -> harness panic {p}");
                ctx.violation(format!("panic@{}", mc_core::last_panic_location()), p, case.clone());
                break;
            }
        }
    }
    if let Some((_, hist, what)) = m.side.post_revert_example.lock().unwrap().clone() {
        println!("post-revert (informational): {hist} -> {what}");
    }
    for (key, (_, _, what, hist)) in m.side.violations.into_inner().unwrap() {
        println!("look-ahead VIOLATION {key}: {what}");
        ctx.violation(key, what, json!({"base": tag, "history": hist}));
    }
    ctx.finish(Level::ModelChecking, "replay", 0, false, serde_json::Map::new(), &[])
}
