//! C13, Layer 2 — the seam the kernel uses: the real `SubstateIO` over a real `Heap` and a real
//! `Track<InMemorySubstateDatabase>`.
//!
//! World: a heap node H and a store node S (present in the base database), each with
//! partition 0 = {Field(0)} and partition 1 = {Map([1]), Map([2])}  (6 substates, values ∈ {0,1,2} as SBOR u8).
//! Ops: open(substate, flags ∈ {read, MUTABLE, MUTABLE|FORCE_WRITE}), read / write / close through a handle,
//! read / write / close on a closed handle, set_substate, remove_substate, drop_node(H),
//! move_partition(H.p → S.p).
//! Oracle: the reader/writer model of Layer 1 + "a write is accepted only through a MUTABLE handle" +
//! "set / remove refuse while the substate is open, drop / move refuse while the node has an open substate",
//! and after every step: `substate_locks.is_locked / node_is_locked`, the handle table, and the *contents* of
//! all six substates (so a refused operation that nevertheless changed something is seen).
use crate::explore::bfs_chunked;
use mc_core::{BfsStats, Ctx, Machine};
use radix_common::prelude::*;
use radix_engine::kernel::call_frame::*;
use radix_engine::kernel::heap::{Heap, HeapRemovePartitionError};
use radix_engine::kernel::substate_io::*;
use radix_engine::kernel::substate_locks::SubstateLocks;
use radix_engine::track::interface::{CallbackError, CommitableSubstateStore, IOAccess, NodeSubstates};
use radix_engine::track::Track;
use radix_engine_interface::api::LockFlags;
use radix_engine_interface::types::IndexedScryptoValue;
use radix_substate_store_impls::memory_db::InMemorySubstateDatabase;
use radix_substate_store_interface::interface::*;
use std::collections::{BTreeMap, BTreeSet};
use std::mem::ManuallyDrop;

pub const ALPHABET: &str = "SubstateIO over Heap+Track: heap node H and store node S x {P0.Field(0), P1.Map([1]), P1.Map([2])}; open x {read, MUTABLE, MUTABLE|FORCE_WRITE (store only)}, read/write(2 values)/close per open handle (oldest/newest), read/write/close on the last closed handle, set_substate(2 values), remove_substate, drop_node(H), move_partition(H.p -> S.p)";

type Db = InMemorySubstateDatabase;
type Tr = Track<'static, Db>;
type V = (String, String);

fn v(key: &str, what: String) -> V {
    (key.to_string(), what)
}

const N_SUBS: usize = 6;
const H: usize = 0;
const S: usize = 1;

fn node(i: usize) -> NodeId {
    let mut raw = [0x33u8; NodeId::LENGTH];
    // H: internal generic component (lives on the heap), S: global generic component (lives in the store)
    raw[0] = if i == H { EntityType::InternalGenericComponent as u8 } else { EntityType::GlobalGenericComponent as u8 };
    raw[NodeId::LENGTH - 1] = i as u8;
    NodeId(raw)
}

fn part_of(s: usize) -> u8 {
    if s % 3 == 0 {
        0
    } else {
        1
    }
}

fn sub(s: usize) -> (NodeId, PartitionNumber, SubstateKey) {
    let key = match s % 3 {
        0 => SubstateKey::Field(0),
        1 => SubstateKey::Map(vec![1]),
        _ => SubstateKey::Map(vec![2]),
    };
    (node(s / 3), PartitionNumber(part_of(s)), key)
}

fn device(s: usize) -> SubstateDevice {
    if s / 3 == H {
        SubstateDevice::Heap
    } else {
        SubstateDevice::Store
    }
}

fn val(x: u8) -> IndexedScryptoValue {
    IndexedScryptoValue::from_typed(&x)
}

fn unval(v: &IndexedScryptoValue) -> Option<u8> {
    v.as_typed::<u8>().ok()
}

fn node_substates() -> NodeSubstates {
    let mut m: NodeSubstates = BTreeMap::new();
    m.entry(PartitionNumber(0)).or_default().insert(SubstateKey::Field(0), val(0));
    m.entry(PartitionNumber(1)).or_default().insert(SubstateKey::Map(vec![1]), val(0));
    m.entry(PartitionNumber(1)).or_default().insert(SubstateKey::Map(vec![2]), val(0));
    m
}

fn base_db() -> &'static Db {
    use std::sync::OnceLock;
    static DB: OnceLock<Db> = OnceLock::new();
    DB.get_or_init(|| {
        let mut db = InMemorySubstateDatabase::standard();
        for (p, subs) in node_substates() {
            for (k, val) in subs {
                db.update_substate_raw(node(S), p, &k, val.as_slice().to_vec());
            }
        }
        db
    })
}

struct NoCost;
impl IOAccessHandler<()> for NoCost {
    fn on_io_access(&mut self, _heap: &Heap, _io_access: IOAccess) -> Result<(), ()> {
        Ok(())
    }
}
impl SubstateReadHandler for NoCost {
    type Error = ();
    fn on_read_substate(&mut self, _heap: &Heap, _value: &IndexedScryptoValue, _location: SubstateDevice) -> Result<(), ()> {
        Ok(())
    }
}

/// The real objects. `io` borrows `*track` mutably for its whole life; the box is freed after `io`.
struct Real {
    io: ManuallyDrop<SubstateIO<'static, Tr>>,
    track: *mut Tr,
}

impl Real {
    fn new() -> Real {
        let track: *mut Tr = Box::into_raw(Box::new(Track::new(base_db())));
        // SAFETY: `track` stays allocated until `Drop` below, which drops `io` (the only borrower) first.
        let store: &'static mut Tr = unsafe { &mut *track };
        let mut io = SubstateIO {
            heap: Heap::new(),
            store,
            non_global_node_refs: NonGlobalNodeRefs::new(),
            substate_locks: SubstateLocks::new(),
            heap_transient_substates: TransientSubstates::new(),
            pinned_to_heap: BTreeSet::new(),
        };
        io.create_node(SubstateDevice::Heap, node(H), node_substates(), &mut NoCost).unwrap_or_else(|_| mc_core::machinery_error("C13 L2: cannot create heap node"));
        Real { io: ManuallyDrop::new(io), track }
    }
}

impl Drop for Real {
    fn drop(&mut self) {
        unsafe {
            ManuallyDrop::drop(&mut self.io);
            drop(Box::from_raw(self.track));
        }
    }
}

#[derive(Clone, Copy, Debug, PartialEq, Eq, PartialOrd, Ord, Hash)]
pub enum Fl {
    Read,
    Mutable,
    MutableForceWrite,
}

impl Fl {
    fn flags(self) -> LockFlags {
        match self {
            Fl::Read => LockFlags::read_only(),
            Fl::Mutable => LockFlags::MUTABLE,
            Fl::MutableForceWrite => LockFlags::MUTABLE | LockFlags::FORCE_WRITE,
        }
    }
    fn mutable(self) -> bool {
        !matches!(self, Fl::Read)
    }
}

#[derive(Clone, Copy, Debug, PartialEq, Eq, PartialOrd, Ord, Hash)]
pub enum Which {
    Oldest,
    Newest,
}

#[derive(Clone, Copy, Debug, PartialEq, Eq, PartialOrd, Ord, Hash)]
pub enum Op {
    Open { sub: u8, fl: Fl },
    Read { sub: u8, which: Which },
    Write { sub: u8, which: Which, val: u8 },
    Close { sub: u8, which: Which },
    DeadRead,
    DeadWrite,
    DeadClose,
    Set { sub: u8, val: u8 },
    Remove { sub: u8 },
    DropHeapNode,
    Move { part: u8 },
}

#[derive(Clone, Debug)]
struct Model {
    /// present substates and their value
    content: BTreeMap<u8, u8>,
    heap_alive: bool,
    /// which partitions of H exist in the heap (a moved partition is gone until a `set` re-creates it)
    heap_parts: [bool; 2],
    /// open handles in order of acquisition: (id, substate, flags)
    live: Vec<(u32, u8, Fl)>,
    closed: Vec<u32>,
}

impl Model {
    fn new() -> Self {
        Model { content: (0..N_SUBS as u8).map(|s| (s, 0)).collect(), heap_alive: true, heap_parts: [true, true], live: vec![], closed: vec![] }
    }
    fn handles_on(&self, s: u8) -> Vec<&(u32, u8, Fl)> {
        self.live.iter().filter(|h| h.1 == s).collect()
    }
    fn may_open(&self, s: u8, fl: Fl) -> bool {
        let hs = self.handles_on(s);
        let writer = hs.iter().any(|h| h.2.mutable());
        if fl.mutable() {
            hs.is_empty()
        } else {
            !writer
        }
    }
    fn sub_locked(&self, s: u8) -> bool {
        !self.handles_on(s).is_empty()
    }
    fn node_locked(&self, n: usize) -> bool {
        self.live.iter().any(|h| h.1 as usize / 3 == n)
    }
    fn live_index(&self, s: u8, which: Which) -> Option<usize> {
        let mut it = self.live.iter().enumerate().filter(|(_, h)| h.1 == s).map(|(i, _)| i);
        match which {
            Which::Oldest => it.next(),
            Which::Newest => it.last(),
        }
    }
    fn dead_id(&self) -> Option<u32> {
        self.closed.last().copied().filter(|id| !self.live.iter().any(|h| h.0 == *id))
    }
}

pub struct St {
    real: Real,
    model: Model,
    hist: Vec<Op>,
}

fn cb<T, E: std::fmt::Debug>(r: Result<T, CallbackError<E, ()>>) -> Result<Result<T, E>, V> {
    match r {
        Ok(t) => Ok(Ok(t)),
        Err(CallbackError::Error(e)) => Ok(Err(e)),
        Err(CallbackError::CallbackError(())) => Err(v("harness:callback-error", "the no-op IO callback reported an error".into())),
    }
}

fn apply(real: &mut Real, model: &mut Model, op: &Op) -> Result<String, V> {
    let io: &mut SubstateIO<'static, Tr> = &mut real.io;
    match *op {
        Op::Open { sub: s, fl } => {
            let (n, p, k) = sub(s as usize);
            let r = cb(io
                .open_substate(device(s as usize), &n, p, &k, fl.flags(), None::<fn() -> IndexedScryptoValue>, &mut NoCost)
                .map(|(h, value)| (h, unval(value))))?;
            let present = model.content.get(&s).copied();
            match (r, present) {
                (Err(OpenSubstateError::SubstateFault), None) => Ok("open:absent-substate".into()),
                (Err(e), None) => Err(v("open:absent-substate-unexpected-result", format!("open of absent substate {s} gave {e:?}"))),
                (Ok((h, _)), None) => Err(v("open:absent-substate-opened", format!("open of absent substate {s} returned handle {h}"))),
                (Ok((h, got)), Some(want)) => {
                    if !model.may_open(s, fl) {
                        return Err(v(
                            if fl.mutable() { "open-write:granted-while-handle-open" } else { "open-read:granted-while-writer-open" },
                            format!("open(substate {s}, {fl:?}) returned handle {h} although open handles on it are {:?}", model.handles_on(s)),
                        ));
                    }
                    if model.live.iter().any(|x| x.0 == h) {
                        return Err(v("open:handle-reused-while-open", format!("open returned handle {h} which is still open")));
                    }
                    if got != Some(want) {
                        return Err(v("open:value", format!("open(substate {s}) showed value {got:?}, current value is {want}")));
                    }
                    model.live.push((h, s, fl));
                    model.closed.retain(|c| *c != h);
                    Ok(format!("open-{fl:?}:granted"))
                }
                (Err(OpenSubstateError::SubstateLocked(..)), Some(_)) => {
                    if model.may_open(s, fl) {
                        return Err(v(
                            if fl.mutable() { "open-write:refused-without-handle" } else { "open-read:refused-without-writer" },
                            format!("open(substate {s}, {fl:?}) refused as locked although open handles on it are {:?}", model.handles_on(s)),
                        ));
                    }
                    Ok(format!("open-{fl:?}:refused(locked)"))
                }
                (Err(e), Some(_)) => Err(v("open:unexpected-error", format!("open(substate {s}, {fl:?}) gave {e:?}"))),
            }
        }
        Op::Read { sub: s, which } => {
            let idx = model.live_index(s, which).ok_or_else(|| v("harness:not-enabled", format!("{op:?}")))?;
            let id = model.live[idx].0;
            let got = mc_core::catch(|| io.read_substate(id, &mut NoCost).map(|x| unval(x))).map_err(|p| v("read:open-handle-panic", format!("read through open handle {id} panicked: {p}")))?;
            let want = model.content.get(&s).copied();
            if got != Ok(want) || want.is_none() {
                return Err(v("read:value", format!("read through handle {id} on substate {s} gave {got:?}, current value {want:?}")));
            }
            Ok("read".into())
        }
        Op::Write { sub: s, which, val: x } => {
            let idx = model.live_index(s, which).ok_or_else(|| v("harness:not-enabled", format!("{op:?}")))?;
            let (id, _, fl) = model.live[idx];
            let r = mc_core::catch(|| io.write_substate(id, val(x), &mut NoCost)).map_err(|p| v("write:open-handle-panic", format!("write through open handle {id} panicked: {p}")))?;
            match (cb(r)?, fl.mutable()) {
                (Ok(()), true) => {
                    model.content.insert(s, x);
                    Ok("write:accepted(mutable-handle)".into())
                }
                (Err(WriteSubstateError::NoWritePermission), false) => Ok("write:refused(read-handle)".into()),
                (Ok(()), false) => Err(v("write:accepted-through-read-handle", format!("write through read-only handle {id} on substate {s} accepted"))),
                (Err(e), _) => Err(v("write:unexpected-error", format!("write through handle {id} ({fl:?}) gave {e:?}"))),
            }
        }
        Op::Close { sub: s, which } => {
            let idx = model.live_index(s, which).ok_or_else(|| v("harness:not-enabled", format!("{op:?}")))?;
            let (id, _, fl) = model.live[idx];
            let got = mc_core::catch(|| io.close_substate(id)).map_err(|p| v("close:open-handle-panic", format!("close of open handle {id} panicked: {p}")))?;
            model.live.remove(idx);
            model.closed.push(id);
            let (n, p, k) = sub(s as usize);
            if (got.0, got.1, got.2.clone(), got.3) != (n, p, k, fl.flags()) {
                return Err(v("close:wrong-substate", format!("close({id}) returned {got:?}, handle was opened on substate {s} with {fl:?}")));
            }
            Ok(format!("close-{fl:?}"))
        }
        Op::DeadRead | Op::DeadWrite | Op::DeadClose => {
            let id = model.dead_id().ok_or_else(|| v("harness:not-enabled", format!("{op:?}")))?;
            let (name, r) = match op {
                Op::DeadRead => ("read", mc_core::catch(|| io.read_substate(id, &mut NoCost).map(|_| ())).map(|_| ())),
                Op::DeadWrite => ("write", mc_core::catch(|| io.write_substate(id, val(2), &mut NoCost).map(|_| ())).map(|_| ())),
                _ => ("close", mc_core::catch(|| io.close_substate(id)).map(|_| ())),
            };
            match r {
                Ok(()) => Err(v(&format!("dead-handle:{name}-succeeded"), format!("{name} through closed handle {id} returned normally"))),
                Err(_) => Ok(format!("dead-handle:{name}-refused")),
            }
        }
        Op::Set { sub: s, val: x } => {
            let (n, p, k) = sub(s as usize);
            let r = cb(io.set_substate(device(s as usize), &n, p, k, val(x), &mut NoCost))?;
            match (r, model.sub_locked(s)) {
                (Ok(()), false) => {
                    model.content.insert(s, x);
                    if s as usize / 3 == H {
                        model.heap_parts[part_of(s as usize) as usize] = true;
                    }
                    Ok("set:accepted".into())
                }
                (Err(CallFrameSetSubstateError::SubstateLocked(..)), true) => Ok("set:refused(open)".into()),
                (Ok(()), true) => Err(v("set:accepted-while-open", format!("set_substate on substate {s} accepted while handles {:?} are open", model.handles_on(s)))),
                (Err(e), _) => Err(v("set:unexpected-error", format!("set_substate on substate {s} gave {e:?}"))),
            }
        }
        Op::Remove { sub: s } => {
            let (n, p, k) = sub(s as usize);
            let r = cb(io.remove_substate(device(s as usize), &n, p, &k, &mut NoCost).map(|o| o.map(|x| unval(&x))))?;
            match (r, model.sub_locked(s)) {
                (Ok(got), false) => {
                    let want = model.content.remove(&s);
                    if got != want.map(Some) {
                        return Err(v("remove:value", format!("remove_substate on substate {s} returned {got:?}, current value {want:?}")));
                    }
                    Ok(if want.is_some() { "remove:accepted" } else { "remove:absent" }.into())
                }
                (Err(CallFrameRemoveSubstateError::SubstateLocked(..)), true) => Ok("remove:refused(open)".into()),
                (Ok(_), true) => Err(v("remove:accepted-while-open", format!("remove_substate on substate {s} accepted while handles {:?} are open", model.handles_on(s)))),
                (Err(e), _) => Err(v("remove:unexpected-error", format!("remove_substate on substate {s} gave {e:?}"))),
            }
        }
        Op::DropHeapNode => {
            let r = cb(io.drop_node(SubstateDevice::Heap, &node(H), &mut NoCost))?;
            match (r, model.node_locked(H)) {
                (Ok(substates), false) => {
                    let mut got: BTreeMap<u8, u8> = BTreeMap::new();
                    for (p, m) in substates {
                        for (k, x) in m {
                            let s = (0..3).find(|s| sub(*s) == (node(H), p, k.clone())).map(|s| s as u8).unwrap_or(255);
                            got.insert(s, unval(&x).unwrap_or(255));
                        }
                    }
                    let want: BTreeMap<u8, u8> = model.content.iter().filter(|(s, _)| (**s as usize) / 3 == H).map(|(s, x)| (*s, *x)).collect();
                    if got != want {
                        return Err(v("drop:contents", format!("drop_node returned substates {got:?}, current contents {want:?}")));
                    }
                    model.content.retain(|s, _| *s as usize / 3 != H);
                    model.heap_alive = false;
                    model.heap_parts = [false, false];
                    Ok("drop-node:accepted".into())
                }
                (Err(DropNodeError::SubstateBorrowed(..)), true) => Ok("drop-node:refused(substate-open)".into()),
                (Ok(_), true) => Err(v("drop:accepted-while-open", format!("drop_node(H) accepted while handles {:?} are open", model.live))),
                (Err(e), _) => Err(v("drop:unexpected-error", format!("drop_node(H) gave {e:?}"))),
            }
        }
        Op::Move { part } => {
            let pn = PartitionNumber(part);
            let r = cb(io.move_partition(SubstateDevice::Heap, &node(H), pn, SubstateDevice::Store, &node(S), pn, &mut NoCost))?;
            let locked = model.node_locked(H) || model.node_locked(S);
            match (r, locked) {
                (Err(MovePartitionError::SubstateBorrowed(..)), true) => Ok("move-partition:refused(substate-open)".into()),
                (Ok(()), true) => Err(v("move:accepted-while-open", format!("move_partition(H.{part} -> S.{part}) accepted while handles {:?} are open", model.live))),
                (Ok(()), false) => {
                    if !model.heap_parts[part as usize] {
                        return Err(v("move:absent-partition-moved", format!("move_partition of the already moved partition {part} succeeded")));
                    }
                    for l in 0..3u8 {
                        if part_of(l as usize) == part {
                            if let Some(x) = model.content.remove(&l) {
                                model.content.insert(3 + l, x);
                            }
                        }
                    }
                    model.heap_parts[part as usize] = false;
                    Ok("move-partition:accepted".into())
                }
                (Err(MovePartitionError::HeapRemovePartitionError(HeapRemovePartitionError::ModuleNotFound(_))), false) if !model.heap_parts[part as usize] => {
                    Ok("move-partition:absent-partition".into())
                }
                (Err(e), _) => Err(v("move:unexpected-error", format!("move_partition(H.{part} -> S.{part}) gave {e:?}"))),
            }
        }
    }
}

/// What the real objects say about the six substates' contents (bypassing the locks, for observation only;
/// a store read may add a read-only entry to the track's cache, which no operation of this layer can see).
fn observe_contents(real: &mut Real) -> Vec<Option<u8>> {
    let io: &mut SubstateIO<'static, Tr> = &mut real.io;
    (0..N_SUBS)
        .map(|s| {
            let (n, p, k) = sub(s);
            match device(s) {
                SubstateDevice::Heap => io.heap.get_substate(&n, p, &k).and_then(unval),
                SubstateDevice::Store => io.store.read_substate(&n, p, &k).and_then(unval),
            }
        })
        .collect()
}

fn compare(real: &mut Real, model: &Model) -> Result<(), V> {
    let contents = observe_contents(real);
    for s in 0..N_SUBS {
        let want = model.content.get(&(s as u8)).copied();
        if contents[s] != want {
            return Err(v("after-step:contents", format!("substate {s} holds {:?}, expected {want:?} (a refused or unrelated operation changed it, or an accepted one did not)", contents[s])));
        }
    }
    let locks = &real.io.substate_locks;
    for s in 0..N_SUBS {
        let (n, p, k) = sub(s);
        let got = locks.is_locked(&n, p, &k);
        if got != model.sub_locked(s as u8) {
            return Err(v("after-step:is_locked", format!("is_locked(substate {s}) = {got}, open handles on it: {:?}", model.handles_on(s as u8))));
        }
    }
    for n in [H, S] {
        let got = locks.node_is_locked(&node(n));
        if got != model.node_locked(n) {
            return Err(v("after-step:node_is_locked", format!("node_is_locked(node {n}) = {got}, open handles: {:?}", model.live)));
        }
    }
    let mut described = vec![];
    for (id, s, fl) in &model.live {
        match mc_core::catch(|| {
            let (n, p, k, d) = locks.get(*id);
            (*n, *p, k.clone(), d.flags)
        }) {
            Ok((n, p, k, flags)) => {
                if (n, p, k.clone()) != sub(*s as usize) || flags != fl.flags() {
                    return Err(v("after-step:handle-table", format!("open handle {id} is described as ({n:?},{p:?},{k:?},{flags:?}), opened on substate {s} with {fl:?}")));
                }
                described.push(((n, p, k), flags.contains(LockFlags::MUTABLE)));
            }
            Err(p) => return Err(v("after-step:handle-table-panic", format!("open handle {id} is unknown to the lock table: {p}"))),
        }
    }
    for (i, (k, w)) in described.iter().enumerate() {
        if *w && described.iter().enumerate().any(|(j, (k2, _))| j != i && k2 == k) {
            return Err(v("after-step:exclusivity", format!("substate {k:?} is open for writing while another handle to it is open")));
        }
    }
    Ok(())
}

pub struct L2;

impl Machine for L2 {
    type Op = Op;
    type St = St;

    fn init(&self) -> St {
        St { real: Real::new(), model: Model::new(), hist: vec![] }
    }

    fn ops(&self, st: &St, _depth: usize) -> Vec<Op> {
        let m = &st.model;
        let mut ops = vec![];
        let usable = |s: usize| s / 3 == S || m.heap_alive;
        for s in (0..N_SUBS).filter(|s| usable(*s)) {
            ops.push(Op::Open { sub: s as u8, fl: Fl::Read });
            ops.push(Op::Open { sub: s as u8, fl: Fl::Mutable });
            if device(s) == SubstateDevice::Store {
                ops.push(Op::Open { sub: s as u8, fl: Fl::MutableForceWrite });
            }
        }
        for s in 0..N_SUBS as u8 {
            let n = m.handles_on(s).len();
            let mut whiches = vec![];
            if n >= 1 {
                whiches.push(Which::Oldest);
            }
            if n >= 2 {
                whiches.push(Which::Newest);
            }
            for w in whiches {
                ops.push(Op::Read { sub: s, which: w });
                ops.push(Op::Write { sub: s, which: w, val: 1 });
                ops.push(Op::Write { sub: s, which: w, val: 2 });
                ops.push(Op::Close { sub: s, which: w });
            }
        }
        if m.dead_id().is_some() {
            ops.push(Op::DeadRead);
            ops.push(Op::DeadWrite);
            ops.push(Op::DeadClose);
        }
        for s in (0..N_SUBS).filter(|s| usable(*s)) {
            ops.push(Op::Set { sub: s as u8, val: 1 });
            ops.push(Op::Set { sub: s as u8, val: 2 });
            ops.push(Op::Remove { sub: s as u8 });
        }
        if m.heap_alive {
            ops.push(Op::DropHeapNode);
            ops.push(Op::Move { part: 0 });
            ops.push(Op::Move { part: 1 });
        }
        ops
    }

    fn step(&self, st: &mut St, op: &Op) -> Result<String, V> {
        let class = apply(&mut st.real, &mut st.model, op)?;
        st.hist.push(*op);
        compare(&mut st.real, &st.model)?;
        Ok(class)
    }

    /// cheap copy = replay of the (already accepted) history without the per-step comparison
    fn fork(&self, st: &St) -> Option<St> {
        let mut copy = self.init();
        for op in &st.hist {
            apply(&mut copy.real, &mut copy.model, op).ok()?;
        }
        copy.hist = st.hist.clone();
        Some(copy)
    }

    /// Canonical form: open handles as the real lock table describes them (multiset of (substate, flags); ids
    /// dropped, see Layer 1), the real is_locked / node_is_locked bits and the real contents. The existence of
    /// H and of its (possibly empty) partitions is not observable through the public heap API, so the model's
    /// flags are added (adding model state can only split states, never merge different ones).
    fn fingerprint(&self, st: &St) -> Vec<u8> {
        let locks = &st.real.io.substate_locks;
        let mut hs: Vec<(u8, u32)> = vec![];
        for (id, _, _) in &st.model.live {
            let (n, p, k, d) = locks.get(*id);
            let s = (0..N_SUBS).find(|s| sub(*s) == (*n, *p, k.clone())).map(|s| s as u8).unwrap_or(255);
            hs.push((s, d.flags.bits()));
        }
        hs.sort();
        let mut out = vec![];
        for (s, f) in hs {
            out.push(s);
            out.push(f as u8);
        }
        out.push(0xFE);
        for s in 0..N_SUBS {
            let (n, p, k) = sub(s);
            out.push(locks.is_locked(&n, p, &k) as u8);
        }
        for n in [H, S] {
            out.push(locks.node_is_locked(&node(n)) as u8);
        }
        // contents were compared with the real objects in `step`; the heap part is re-read here, the store part
        // (which needs `&mut`) is taken from the model that was just confirmed equal
        for s in 0..N_SUBS {
            let (n, p, k) = sub(s);
            let c = match device(s) {
                SubstateDevice::Heap => st.real.io.heap.get_substate(&n, p, &k).and_then(unval),
                SubstateDevice::Store => st.model.content.get(&(s as u8)).copied(),
            };
            out.push(c.map_or(0xEE, |x| x));
        }
        out.push(st.model.heap_alive as u8);
        out.push(st.model.heap_parts[0] as u8);
        out.push(st.model.heap_parts[1] as u8);
        out.push(st.model.dead_id().is_some() as u8);
        out
    }
}

pub fn explore(ctx: &Ctx, depth: usize, wall_cap_s: f64) -> BfsStats {
    bfs_chunked(ctx, &L2, "L2", depth, 30_000_000, wall_cap_s, 10_000)
}

fn parse_op(s: &str) -> Option<Op> {
    let num = |key: &str| -> Option<u8> {
        let i = s.find(key)? + key.len();
        let rest = &s[i..];
        let end = rest.find(|c: char| !c.is_ascii_digit()).unwrap_or(rest.len());
        rest[..end].parse().ok()
    };
    let which = || if s.contains("Newest") { Which::Newest } else { Which::Oldest };
    Some(if s.starts_with("Open") {
        let fl = if s.contains("MutableForceWrite") {
            Fl::MutableForceWrite
        } else if s.contains("Mutable") {
            Fl::Mutable
        } else {
            Fl::Read
        };
        Op::Open { sub: num("sub: ")?, fl }
    } else if s.starts_with("Read") {
        Op::Read { sub: num("sub: ")?, which: which() }
    } else if s.starts_with("Write") {
        Op::Write { sub: num("sub: ")?, which: which(), val: num("val: ")? }
    } else if s.starts_with("Close") {
        Op::Close { sub: num("sub: ")?, which: which() }
    } else if s.starts_with("DeadRead") {
        Op::DeadRead
    } else if s.starts_with("DeadWrite") {
        Op::DeadWrite
    } else if s.starts_with("DeadClose") {
        Op::DeadClose
    } else if s.starts_with("Set") {
        Op::Set { sub: num("sub: ")?, val: num("val: ")? }
    } else if s.starts_with("Remove") {
        Op::Remove { sub: num("sub: ")? }
    } else if s.starts_with("DropHeapNode") {
        Op::DropHeapNode
    } else if s.starts_with("Move") {
        Op::Move { part: num("part: ")? }
    } else {
        return None;
    })
}

pub fn replay(ctx: &Ctx, hist: &[String]) {
    let m = L2;
    let mut st = m.init();
    for (i, s) in hist.iter().enumerate() {
        let op = parse_op(s).unwrap_or_else(|| mc_core::machinery_error(&format!("cannot parse op {s}")));
        match mc_core::catch(|| m.step(&mut st, &op)) {
            Ok(Ok(class)) => println!("step {i}: {op:?} -> {class}"),
            Ok(Err((k, w))) => {
                println!("step {i}: {op:?} -> VIOLATION {k}: {w}");
                ctx.violation(k, w, serde_json::json!({"base": "L2", "history": hist}));
                return;
            }
            Err(p) => {
                println!("step {i}: {op:?} -> harness panic {p}");
                ctx.violation(format!("panic@{}", mc_core::last_panic_location()), p, serde_json::json!({"base": "L2", "history": hist}));
                return;
            }
        }
    }
}
