//! mc-kernel: serves C12 C13 (one module per property).
use mc_core::Ctx;

mod c12;
mod c13;
mod c13_l2;
mod explore;

fn main() {
    let ctx = Ctx::from_args();
    match ctx.id.as_str() {
        "C12" => c12::run(ctx),
        "C13" => c13::run(ctx),
        other => mc_core::machinery_error(&format!("mc-kernel does not serve {other}")),
    }
}
