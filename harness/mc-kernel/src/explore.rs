//! Memory-bounded variant of `mc_core::bfs` (same `Machine` trait, same semantics, same deterministic
//! merge order): the frontier of a layer is expanded in chunks so that the per-transition results of a whole
//! layer are never held at once, and the wall cap is also honoured inside a layer (the layer then counts as
//! not completed and the run reports `capped`).
use mc_core::{catch, last_panic_location, machinery_error, par_map, BfsStats, Ctx, Local, Machine};
use serde_json::json;
use std::collections::HashSet;
use std::time::Instant;

struct Expanded<Op> {
    results: Vec<(Op, Result<(String, Vec<u8>, bool), (String, String)>)>,
}

pub fn bfs_chunked<M: Machine>(ctx: &Ctx, m: &M, tag: &str, max_depth: usize, state_cap: u64, wall_cap_s: f64, chunk: usize) -> BfsStats {
    let mut stats = BfsStats::default();
    let mut seen: HashSet<Vec<u8>> = HashSet::new();
    let st0 = m.init();
    seen.insert(m.fingerprint(&st0));
    drop(st0);
    stats.states = 1;
    stats.per_depth_states.push(1);
    let mut frontier: Vec<Vec<M::Op>> = vec![vec![]];
    let t0 = Instant::now();
    'layers: for depth in 0..max_depth {
        if frontier.is_empty() {
            stats.depth_completed = max_depth; // fixpoint: every deeper layer is empty
            break;
        }
        if stats.states >= state_cap || t0.elapsed().as_secs_f64() > wall_cap_s {
            stats.capped = true;
            break;
        }
        let mut next: Vec<Vec<M::Op>> = vec![];
        let mut new_states = 0u64;
        for part in frontier.chunks(chunk.max(1)) {
            if t0.elapsed().as_secs_f64() > wall_cap_s || stats.states + new_states >= state_cap {
                // layer not completed: keep the counts of what was executed, report the last full layer
                stats.capped = true;
                stats.states += new_states;
                stats.per_depth_states.push(new_states);
                stats.max_depth = depth + 1;
                break 'layers;
            }
            let expanded: Vec<Expanded<M::Op>> = par_map(ctx.threads, part, |hist| {
                let rebuild = || {
                    let mut st = m.init();
                    for op in hist.iter() {
                        if let Err((k, w)) = m.step(&mut st, op) {
                            machinery_error(&format!("replay of an accepted history failed (nondeterministic harness?): {k}: {w}"));
                        }
                    }
                    st
                };
                let base = rebuild();
                let ops = m.ops(&base, depth);
                let mut results = Vec::with_capacity(ops.len());
                let mut base_opt = Some(base);
                let n = ops.len();
                for (i, op) in ops.into_iter().enumerate() {
                    let mut st = if i + 1 == n {
                        base_opt.take().unwrap()
                    } else {
                        match m.fork(base_opt.as_ref().unwrap()) {
                            Some(s) => s,
                            None => rebuild(),
                        }
                    };
                    let r = catch(|| m.step(&mut st, &op));
                    let r = match r {
                        Ok(Ok(class)) => Ok((class, m.fingerprint(&st), m.terminal(&st))),
                        Ok(Err(v)) => Err(v),
                        Err(p) => Err((format!("panic@{}", last_panic_location()), format!("harness step panicked: {p}"))),
                    };
                    results.push((op, r));
                }
                Expanded { results }
            });
            let mut local = Local::new();
            for (hist, ex) in part.iter().zip(expanded.into_iter()) {
                stats.alphabet_max = stats.alphabet_max.max(ex.results.len());
                for (op, r) in ex.results {
                    stats.transitions += 1;
                    local.evals += 1;
                    match r {
                        Ok((class, fp, terminal)) => {
                            local.class(&class);
                            if seen.insert(fp) {
                                new_states += 1;
                                let mut h = hist.clone();
                                h.push(op);
                                local.sample(|| json!({"base": tag, "history": h.iter().map(|o| format!("{o:?}")).collect::<Vec<_>>(), "last_observation": class}));
                                if terminal || depth + 1 == max_depth {
                                    stats.leaves += 1;
                                }
                                if !terminal && depth + 1 < max_depth {
                                    next.push(h);
                                }
                            }
                        }
                        Err((key, what)) => {
                            let mut h: Vec<String> = hist.iter().map(|o| format!("{o:?}")).collect();
                            h.push(format!("{op:?}"));
                            local.violation(key, what, json!({"base": tag, "history": h}));
                        }
                    }
                }
            }
            ctx.merge(local);
        }
        stats.states += new_states;
        stats.per_depth_states.push(new_states);
        stats.max_depth = depth + 1;
        stats.depth_completed = depth + 1;
        frontier = next;
    }
    stats
}

/// Violations found by look-ahead work that runs outside `Machine::step` (e.g. inside `fingerprint`) are
/// collected here; per key the smallest history (length, then text) is kept, so the result does not depend on
/// which worker found it first.
#[derive(Default)]
pub struct SideViolations {
    map: std::sync::Mutex<std::collections::BTreeMap<String, (usize, String, String, Vec<String>)>>,
}

impl SideViolations {
    pub fn add(&self, key: String, what: String, hist: Vec<String>) {
        let cand = (hist.len(), format!("{hist:?}"), what, hist);
        let mut g = self.map.lock().unwrap();
        match g.get(&key) {
            Some(old) if (old.0, &old.1) <= (cand.0, &cand.1) => {}
            _ => {
                g.insert(key, cand);
            }
        }
    }
    pub fn flush(&self, ctx: &Ctx, tag: &str) {
        let mut g = self.map.lock().unwrap();
        for (key, (_, _, what, hist)) in std::mem::take(&mut *g) {
            ctx.violation(key, what, json!({"base": tag, "history": hist}));
        }
    }
}
