//! C13 — substate locks are exclusive for writers.
//!
//! Statement: a substate is never open for writing while any other handle to it is open, any number of
//! read handles may coexist, a handle is usable exactly from open until close, and a node is reported
//! locked exactly while some handle on one of its substates is open.
//!
//! Shape H (explicit-state history exploration), two layers:
//!
//! * Layer 1 — the counting core: the real `radix_engine::kernel::substate_locks::SubstateLocks<u32>`
//!   driven by every sequence of lock / unlock / dead-handle requests over 8 substates
//!   (2 nodes × 2 partitions × {Field(0), Map([1])}) up to a depth, compared after every step with an
//!   abstract reader/writer model (module `l1`).
//! * Layer 2 — the seam the kernel uses: the real `SubstateIO` over a real `Heap` and a real `Track`
//!   on an in-memory database (module `c13_l2`).
//!
//! The stateright cross-check of the design is replaced by (a) running the first layers of the Layer 1
//! exploration twice and demanding identical counts (a harness that does not own its nondeterminism is a
//! machinery error) and (b) a second Layer 1 exploration with an *order-sensitive* fingerprint whose states,
//! projected to multisets, must be exactly the states of the multiset exploration of the same depth.
use crate::explore::{bfs_chunked, SideViolations};
use std::cell::Cell;
use mc_core::{BfsStats, Ctx, Level, Machine};
use radix_common::prelude::*;
use radix_engine::kernel::substate_locks::SubstateLocks;
use serde_json::json;
use std::collections::{BTreeMap, BTreeSet};

// ------------------------------------------------------------------------------------------------
// Layer 1
// ------------------------------------------------------------------------------------------------

pub const N_SUBS: usize = 8;

pub fn node(i: usize) -> NodeId {
    // two "real" nodes + one that is never locked (index 2), differing in the last byte only so that a
    // hash/compare shortcut on a prefix would collide
    let mut raw = [0x5Au8; NodeId::LENGTH];
    raw[0] = 0xC0; // internal generic component entity byte (irrelevant to SubstateLocks)
    raw[NodeId::LENGTH - 1] = i as u8;
    NodeId(raw)
}

/// substate index s ∈ 0..8: node = s/4, partition = (s/2)%2, key = s%2
pub fn sub(s: usize) -> (NodeId, PartitionNumber, SubstateKey) {
    let key = if s % 2 == 0 { SubstateKey::Field(0) } else { SubstateKey::Map(vec![1]) };
    (node(s / 4), PartitionNumber(((s / 2) % 2) as u8), key)
}

/// Substates that are never locked by any op; they must never be reported as locked.
fn foreign_subs() -> Vec<(NodeId, PartitionNumber, SubstateKey)> {
    vec![
        (node(2), PartitionNumber(0), SubstateKey::Field(0)),
        (node(0), PartitionNumber(2), SubstateKey::Field(0)),
        (node(0), PartitionNumber(0), SubstateKey::Field(1)),
        (node(0), PartitionNumber(0), SubstateKey::Map(vec![])),
        (node(1), PartitionNumber(1), SubstateKey::Map(vec![1, 0])),
    ]
}

#[derive(Clone, Copy, Debug, PartialEq, Eq, PartialOrd, Ord, Hash)]
pub enum Which {
    /// the handle of this class that was opened first
    Oldest,
    /// the handle of this class that was opened last (only offered when the class has ≥ 2 handles)
    Newest,
}

#[derive(Clone, Copy, Debug, PartialEq, Eq, PartialOrd, Ord, Hash)]
pub enum Dead {
    /// the most recently closed handle id that is not live again
    LastClosed,
    /// the first closed handle id that is not live again
    FirstClosed,
    /// an id that was never handed out (max issued + 1, or 0 if none)
    NeverIssued,
    /// u32::MAX
    Far,
}

#[derive(Clone, Copy, Debug, PartialEq, Eq, PartialOrd, Ord, Hash)]
pub enum Op {
    Lock { sub: u8, read_only: bool },
    /// close one live handle on `sub` (all live handles on a substate have the same mode)
    Unlock { sub: u8, which: Which },
    DeadGet(Dead),
    DeadGetMut(Dead),
    DeadUnlock(Dead),
}

/// Abstract reader/writer model. Written from the statement, not from the code.
#[derive(Clone, Default, Debug)]
pub struct Model {
    /// per substate: (number of open read handles, a write handle is open)
    pub rw: BTreeMap<u8, (u32, bool)>,
    /// open handles in order of acquisition: (id given by the real object, substate, read_only, token)
    pub live: Vec<(u32, u8, bool, u32)>,
    /// closed handle ids in order of closing
    pub closed: Vec<u32>,
    pub max_issued: Option<u32>,
    pub tokens: u32,
}

impl Model {
    pub fn may_lock(&self, s: u8, read_only: bool) -> bool {
        let (r, w) = self.rw.get(&s).copied().unwrap_or((0, false));
        if read_only {
            !w
        } else {
            !w && r == 0
        }
    }
    pub fn sub_locked(&self, s: u8) -> bool {
        let (r, w) = self.rw.get(&s).copied().unwrap_or((0, false));
        w || r > 0
    }
    pub fn node_locked(&self, n: usize) -> bool {
        self.live.iter().any(|h| (h.1 as usize) / 4 == n)
    }
    fn on_lock(&mut self, id: u32, s: u8, read_only: bool, token: u32) {
        let e = self.rw.entry(s).or_insert((0, false));
        if read_only {
            e.0 += 1;
        } else {
            e.1 = true;
        }
        self.live.push((id, s, read_only, token));
        self.max_issued = Some(self.max_issued.map_or(id, |m| m.max(id)));
        self.closed.retain(|c| *c != id); // an id that is handed out again is live again
    }
    fn on_unlock(&mut self, idx: usize) -> (u32, u8, bool, u32) {
        let h = self.live.remove(idx);
        let e = self.rw.get_mut(&h.1).expect("model: unlock of unknown substate");
        if h.2 {
            e.0 -= 1;
        } else {
            e.1 = false;
        }
        self.closed.push(h.0);
        h
    }
    fn live_index(&self, s: u8, which: Which) -> Option<usize> {
        let mut it = self.live.iter().enumerate().filter(|(_, h)| h.1 == s).map(|(i, _)| i);
        match which {
            Which::Oldest => it.next(),
            Which::Newest => it.last(),
        }
    }
    fn dead_id(&self, d: Dead) -> Option<u32> {
        let live: BTreeSet<u32> = self.live.iter().map(|h| h.0).collect();
        let r = match d {
            Dead::LastClosed => self.closed.last().copied(),
            Dead::FirstClosed => self.closed.first().copied(),
            Dead::NeverIssued => Some(self.max_issued.map_or(0, |m| m.wrapping_add(1))),
            Dead::Far => Some(u32::MAX),
        };
        r.filter(|id| !live.contains(id))
    }
}

pub struct St {
    real: SubstateLocks<u32>,
    model: Model,
    hist: Vec<Op>,
    /// lock-availability bits of the lookahead probe of this state (see `probes`); None = not computed yet
    probe_bits: Cell<Option<u16>>,
}

type V = (String, String);

fn v(key: &str, what: String) -> V {
    (key.to_string(), what)
}

/// Compare everything the real object lets us observe with the model.
fn compare(real: &SubstateLocks<u32>, model: &Model, ctx_key: &str) -> Result<(), V> {
    for s in 0..N_SUBS {
        let (n, p, k) = sub(s);
        let got = real.is_locked(&n, p, &k);
        let want = model.sub_locked(s as u8);
        if got != want {
            return Err(v(
                &format!("{ctx_key}:is_locked"),
                format!("is_locked(substate {s}) = {got}, model (open handles on it: {:?}) says {want}", model.rw.get(&(s as u8))),
            ));
        }
    }
    for (n, p, k) in foreign_subs() {
        if real.is_locked(&n, p, &k) {
            return Err(v(&format!("{ctx_key}:is_locked-foreign"), format!("never-locked substate ({n:?},{p:?},{k:?}) reported locked")));
        }
    }
    for n in 0..3 {
        let got = real.node_is_locked(&node(n));
        let want = model.node_locked(n);
        if got != want {
            return Err(v(
                &format!("{ctx_key}:node_is_locked"),
                format!("node_is_locked(node {n}) = {got}, but open handles on that node: {}", model.live.iter().filter(|h| h.1 as usize / 4 == n).count()),
            ));
        }
    }
    // what the real object says about the handles it granted and did not yet close: (substate, read_only)
    let mut described: Vec<((NodeId, PartitionNumber, SubstateKey), bool)> = vec![];
    for (id, s, _ro, token) in &model.live {
        match mc_core::catch(|| {
            let (n, p, k, d) = real.get(*id);
            (*n, *p, k.clone(), *d)
        }) {
            Ok((n, p, k, d)) => {
                if (n, p, k.clone()) != sub(*s as usize) || d != *token {
                    return Err(v(
                        &format!("{ctx_key}:get-live"),
                        format!("get(open handle {id}) = ({n:?},{p:?},{k:?},data {d}), opened on substate {s} with data {token}"),
                    ));
                }
                described.push(((n, p, k), d & 1 == 1));
            }
            Err(p) => return Err(v(&format!("{ctx_key}:get-live-panic"), format!("get(open handle {id}) panicked: {p}"))),
        }
    }
    // exclusivity invariant of the statement on the open handles as the real object describes them
    for (i, (k, ro)) in described.iter().enumerate() {
        if !ro && described.iter().enumerate().any(|(j, (k2, _))| j != i && k2 == k) {
            return Err(v(&format!("{ctx_key}:exclusivity"), format!("substate {k:?} is open for writing while another handle to it is open")));
        }
    }
    Ok(())
}

fn apply(real: &mut SubstateLocks<u32>, model: &mut Model, op: &Op) -> Result<String, V> {
    match *op {
        Op::Lock { sub: s, read_only } => {
            let (n, p, k) = sub(s as usize);
            let token = 1000 + model.tokens * 16 + (s as u32) * 2 + read_only as u32;
            model.tokens += 1;
            let want = model.may_lock(s, read_only);
            let got = real.lock(&n, p, &k, read_only, token);
            match (got, want) {
                (Some(id), true) => {
                    if model.live.iter().any(|h| h.0 == id) {
                        return Err(v("lock:handle-reused-while-open", format!("lock returned handle {id} which is still open")));
                    }
                    model.on_lock(id, s, read_only, token);
                    Ok(if read_only { "lock-read:granted" } else { "lock-write:granted" }.into())
                }
                (None, false) => Ok(if read_only { "lock-read:refused(writer-open)" } else { "lock-write:refused(handle-open)" }.into()),
                (Some(id), false) => Err(v(
                    if read_only { "lock-read:granted-while-writer-open" } else { "lock-write:granted-while-handle-open" },
                    format!(
                        "lock(substate {s}, read_only={read_only}) returned handle {id} although the substate has open handles {:?} (readers, writer)",
                        model.rw.get(&s)
                    ),
                )),
                (None, true) => Err(v(
                    if read_only { "lock-read:refused-without-writer" } else { "lock-write:refused-without-handle" },
                    format!("lock(substate {s}, read_only={read_only}) refused although open handles on it are {:?}", model.rw.get(&s)),
                )),
            }
        }
        Op::Unlock { sub: s, which } => {
            let idx = model.live_index(s, which).ok_or_else(|| v("harness:unlock-not-enabled", format!("{op:?}")))?;
            let id = model.live[idx].0;
            let got = mc_core::catch(|| real.unlock(id)).map_err(|p| v("unlock:live-handle-panic", format!("unlock(open handle {id}) panicked: {p}")))?;
            let h = model.on_unlock(idx);
            if (got.0, got.1, got.2.clone()) != sub(h.1 as usize) || got.3 != h.3 {
                return Err(v("unlock:wrong-substate", format!("unlock({id}) returned {got:?}, handle was opened on substate {} with data {}", h.1, h.3)));
            }
            Ok(if h.2 { "unlock-read" } else { "unlock-write" }.into())
        }
        Op::DeadGet(d) | Op::DeadGetMut(d) | Op::DeadUnlock(d) => {
            let id = model.dead_id(d).ok_or_else(|| v("harness:dead-not-enabled", format!("{op:?}")))?;
            let (name, r) = match op {
                Op::DeadGet(_) => ("get", mc_core::catch(|| real.get(id).3).map(|_| ())),
                Op::DeadGetMut(_) => ("get_mut", mc_core::catch(|| real.get_mut(id).3).map(|_| ())),
                _ => ("unlock", mc_core::catch(|| real.unlock(id)).map(|_| ())),
            };
            match r {
                Ok(()) => Err(v(&format!("dead-handle:{name}-succeeded"), format!("{name}({id}) succeeded although handle {id} is not open ({d:?})"))),
                Err(_) => Ok(format!("dead-handle:{name}-refused")),
            }
        }
    }
}

fn rebuild(hist: &[Op]) -> Result<(SubstateLocks<u32>, Model), V> {
    let mut real = SubstateLocks::new();
    let mut model = Model::default();
    for op in hist {
        apply(&mut real, &mut model, op)?;
    }
    Ok((real, model))
}

/// Lookahead on a throw-away copy (the real object is not `Clone`, so the copy is a replay):
/// (1) for every substate, would a read / a write lock be granted now — compared with the model and
///     returned as 16 bits for the fingerprint (exposes the hidden per-substate counter);
/// (2) closing every open handle one by one keeps is_locked / node_is_locked in step with the model and
///     ends with nothing locked and every substate write-lockable.
fn probes(hist: &[Op]) -> Result<u16, V> {
    let (mut real, mut model) = rebuild(hist).map_err(|e| v("harness:probe-replay", format!("{e:?}")))?;
    let mut bits = 0u16;
    for s in 0..N_SUBS as u8 {
        for (j, ro) in [true, false].into_iter().enumerate() {
            let (n, p, k) = sub(s as usize);
            let want = model.may_lock(s, ro);
            let got = real.lock(&n, p, &k, ro, 7);
            if got.is_some() != want {
                return Err(v(
                    "probe:lock-availability",
                    format!("in this state lock(substate {s}, read_only={ro}) granted={} but open handles on it are {:?}", got.is_some(), model.rw.get(&s)),
                ));
            }
            if let Some(id) = got {
                bits |= 1 << (2 * s as usize + j);
                mc_core::catch(|| real.unlock(id)).map_err(|p| v("probe:unlock-panic", p))?;
            }
        }
    }
    compare(&real, &model, "probe:after-trial-locks")?;
    while !model.live.is_empty() {
        let id = model.live[0].0;
        mc_core::catch(|| real.unlock(id)).map_err(|p| v("probe:drain-unlock-panic", p))?;
        model.on_unlock(0);
        compare(&real, &model, "probe:drain")?;
    }
    for s in 0..N_SUBS {
        let (n, p, k) = sub(s);
        if real.lock(&n, p, &k, false, 9).is_none() {
            return Err(v("probe:write-lock-after-all-closed", format!("after closing every handle a write lock on substate {s} is refused")));
        }
    }
    Ok(bits)
}

pub struct L1 {
    /// order-sensitive fingerprint (cross-check run) instead of the multiset one
    pub ordered: bool,
    /// run the lookahead probes on every reached state (oracle + fingerprint bits)
    pub probes: bool,
    /// violations found by the probes (they run inside `fingerprint`, once per reached state)
    pub side: SideViolations,
    /// ordered run only: the multiset projections of all states whose fingerprint was taken
    pub projections: std::sync::Mutex<BTreeSet<Vec<(u8, u8)>>>,
}

impl L1 {
    pub fn new(ordered: bool, probes: bool) -> L1 {
        L1 { ordered, probes, side: SideViolations::default(), projections: Default::default() }
    }
    fn probe_bits(&self, st: &St) -> u16 {
        if let Some(b) = st.probe_bits.get() {
            return b;
        }
        let b = match probes(&st.hist) {
            Ok(b) => b,
            Err((k, w)) => {
                let mut h: Vec<String> = st.hist.iter().map(|o| format!("{o:?}")).collect();
                h.push("<look-ahead: trial lock of every substate in both modes, then close every open handle, then write-lock everything>".into());
                self.side.add(k, w, h);
                0xEEEE
            }
        };
        st.probe_bits.set(Some(b));
        b
    }
}

fn new_st(real: SubstateLocks<u32>, model: Model, hist: Vec<Op>) -> St {
    St { real, model, hist, probe_bits: Cell::new(None) }
}

impl Machine for L1 {
    type Op = Op;
    type St = St;

    fn init(&self) -> St {
        new_st(SubstateLocks::new(), Model::default(), vec![])
    }

    fn ops(&self, st: &St, _depth: usize) -> Vec<Op> {
        let mut ops = vec![];
        for s in 0..N_SUBS as u8 {
            ops.push(Op::Lock { sub: s, read_only: true });
            ops.push(Op::Lock { sub: s, read_only: false });
        }
        for s in 0..N_SUBS as u8 {
            let n = st.model.live.iter().filter(|h| h.1 == s).count();
            if n >= 1 {
                ops.push(Op::Unlock { sub: s, which: Which::Oldest });
            }
            if n >= 2 {
                ops.push(Op::Unlock { sub: s, which: Which::Newest });
            }
        }
        let mut seen = BTreeSet::new();
        for d in [Dead::LastClosed, Dead::FirstClosed, Dead::NeverIssued, Dead::Far] {
            if let Some(id) = st.model.dead_id(d) {
                if seen.insert(id) {
                    ops.push(Op::DeadGet(d));
                    ops.push(Op::DeadGetMut(d));
                    ops.push(Op::DeadUnlock(d));
                }
            }
        }
        ops
    }

    fn step(&self, st: &mut St, op: &Op) -> Result<String, V> {
        let class = apply(&mut st.real, &mut st.model, op)?;
        st.hist.push(*op);
        compare(&st.real, &st.model, "after-step")?;
        // the lookahead of the predecessor stays valid after a dead-handle op (`compare` has just confirmed that
        // nothing observable moved); after a lock / unlock it is recomputed when the fingerprint is taken
        if matches!(op, Op::Lock { .. } | Op::Unlock { .. }) {
            st.probe_bits.set(None);
        }
        Ok(class)
    }

    /// cheap copy = replay of the history without the per-step comparison (the history was already accepted)
    fn fork(&self, st: &St) -> Option<St> {
        let (real, model) = rebuild(&st.hist).ok()?;
        let copy = new_st(real, model, st.hist.clone());
        if self.probes {
            copy.probe_bits.set(Some(self.probe_bits(st)));
        }
        Some(copy)
    }

    /// Canonical form of the real object's observable state:
    /// the open handles as the real object describes them (`get(h)` → substate, data∋mode), with handle ids
    /// dropped — ids are a monotone counter and only name handles —, the is_locked / node_is_locked bits, and
    /// the lock-availability bits of the lookahead probe (they expose the hidden per-substate counters).
    ///
    /// Multiset form (default): handles sorted by (substate, mode). Sound because nothing in the object's API
    /// iterates over handles (the `IndexMap` order changed by `swap_remove` is unobservable) and every op of the
    /// alphabet addresses a handle by (substate, oldest/newest), so states that differ only in acquisition order
    /// or absolute ids have the same futures up to renaming. The `ordered` run keeps acquisition order and is
    /// used to confirm this on small depths.
    fn fingerprint(&self, st: &St) -> Vec<u8> {
        let mut hs: Vec<(u8, u8)> = vec![];
        for (id, _, _, _) in &st.model.live {
            let (n, p, k, d) = st.real.get(*id);
            let s = (0..N_SUBS).find(|s| sub(*s) == (*n, *p, k.clone())).map(|s| s as u8).unwrap_or(255);
            hs.push((s, (*d & 1) as u8));
        }
        if !self.ordered {
            hs.sort();
        } else {
            let mut ms = hs.clone();
            ms.sort();
            self.projections.lock().unwrap().insert(ms);
        }
        let mut out = vec![];
        for (s, m) in hs {
            out.push(s);
            out.push(m);
        }
        out.push(0xFE);
        let mut bits = 0u16;
        for s in 0..N_SUBS {
            let (n, p, k) = sub(s);
            if st.real.is_locked(&n, p, &k) {
                bits |= 1 << s;
            }
        }
        for n in 0..3 {
            if st.real.node_is_locked(&node(n)) {
                bits |= 1 << (8 + n);
            }
        }
        out.extend_from_slice(&bits.to_le_bytes());
        if self.probes {
            out.extend_from_slice(&self.probe_bits(st).to_le_bytes());
        }
        out
    }
}

// ------------------------------------------------------------------------------------------------
// driver
// ------------------------------------------------------------------------------------------------

const CHUNK: usize = 20_000;

pub fn run(ctx: Ctx) -> ! {
    if ctx.replay.is_some() {
        replay(ctx);
    }
    let quick = ctx.quick();
    let d1 = ctx.pick(7, 11);
    let d_ord = ctx.pick(4, 5);
    let (d2, cap2_s) = ctx.pick((5, 40.0), (7, 900.0));

    // determinism: the first layers twice, identical counts (replaces the stateright cross-check)
    let m_plain = L1::new(false, true);
    let a = bfs_chunked(&ctx, &m_plain, "L1-determinism-a", 3, u64::MAX, 60.0, CHUNK);
    let b = bfs_chunked(&ctx, &m_plain, "L1-determinism-b", 3, u64::MAX, 60.0, 7);
    if a.states != b.states || a.transitions != b.transitions || a.per_depth_states != b.per_depth_states {
        mc_core::machinery_error(&format!("C13: two runs of the same exploration disagree: {a:?} vs {b:?}"));
    }

    // Layer 1, multiset fingerprint, lookahead probes as additional oracle
    let m1 = L1::new(false, true);
    let s1 = bfs_chunked(&ctx, &m1, "L1", d1, 20_000_000, if quick { 35.0 } else { 600.0 }, CHUNK);
    m_plain.side.flush(&ctx, "L1");
    m1.side.flush(&ctx, "L1");
    println!("C13 L1 depth {} states {} transitions {} capped {} per-depth {:?} ({:.1}s)", s1.depth_completed, s1.states, s1.transitions, s1.capped, s1.per_depth_states, ctx.elapsed_s());

    // Layer 1, order-sensitive fingerprint (cross-check of the symmetry argument)
    let m_ord = L1::new(true, true);
    let s_ord = bfs_chunked(&ctx, &m_ord, "L1-ordered", d_ord, 20_000_000, if quick { 10.0 } else { 200.0 }, CHUNK);
    m_ord.side.flush(&ctx, "L1-ordered");
    let ms_ref = bfs_chunked(&ctx, &L1::new(false, false), "L1-multiset-ref", d_ord, 20_000_000, 200.0, CHUNK);
    if !s_ord.capped && !ms_ref.capped && !ctx.has_violations() {
        let projected = m_ord.projections.lock().unwrap().len() as u64;
        if projected != ms_ref.states {
            mc_core::machinery_error(&format!(
                "C13: order-sensitive exploration to depth {d_ord} reaches {projected} multiset classes, multiset exploration {} states: the symmetry reduction is not justified",
                ms_ref.states
            ));
        }
        ctx.note(format!(
            "symmetry cross-check: order-sensitive exploration to depth {d_ord}: {} states projecting onto {projected} multiset classes == {} states of the multiset exploration",
            s_ord.states, ms_ref.states
        ));
    }
    println!("C13 L1-ordered depth {} states {} transitions {} ({:.1}s)", s_ord.depth_completed, s_ord.states, s_ord.transitions, ctx.elapsed_s());

    // Layer 2
    let s2 = crate::c13_l2::explore(&ctx, d2, cap2_s);
    println!("C13 L2 depth {} states {} transitions {} capped {} per-depth {:?} ({:.1}s)", s2.depth_completed, s2.states, s2.transitions, s2.capped, s2.per_depth_states, ctx.elapsed_s());

    let mut total = BfsStats::default();
    for s in [&s1, &s_ord, &s2] {
        total.add(s);
    }
    let mut cov = total.coverage();
    cov.insert("layer1".into(), json!(s1.coverage()));
    cov.insert("layer1_ordered".into(), json!(s_ord.coverage()));
    cov.insert("layer2".into(), json!(s2.coverage()));
    cov.insert("determinism_rerun".into(), json!({"depth": 3, "states": a.states, "transitions": a.transitions, "identical": true}));
    cov.insert(
        "bounds".into(),
        json!({
            "layer1": format!("8 substates (2 nodes x 2 partitions x {{Field(0),Map([1])}}), lock read/write, unlock oldest/newest per substate, get/get_mut/unlock on 4 kinds of dead handle; depth {}", s1.depth_completed),
            "layer1_ordered": format!("same alphabet, acquisition-order-sensitive fingerprint; depth {}", s_ord.depth_completed),
            "layer2": format!("{}; depth {}", crate::c13_l2::ALPHABET, s2.depth_completed),
        }),
    );
    let exhaustive = !s1.capped && !s_ord.capped && !s2.capped;
    let nontrivial = s1.states + s_ord.states + s2.states;
    ctx.finish(
        Level::ModelChecking,
        "distinct states (canonical fingerprints of the real SubstateLocks / SubstateIO) reached over all layers",
        nontrivial,
        exhaustive,
        cov,
        &[
            "handle ids only name handles: states that differ in absolute handle ids / acquisition order are merged (confirmed by the order-sensitive run on small depth)",
            "a lock request is expected to be granted whenever the reader/writer model allows it (the statement's safety clauses alone would also be satisfied by refusing everything)",
            "get/get_mut/unlock on a handle that is not open must not return normally (they panic by contract)",
            "Layer 2: FORCE_WRITE only on store substates (the engine combines it with UNMODIFIED_BASE, which is refused on heap nodes); drop_node only on heap nodes; move_partition only from the heap",
            "lock data payloads are only checked for identity",
        ],
    )
}

fn parse_op(s: &str) -> Option<Op> {
    // Debug form of Op, e.g. "Lock { sub: 3, read_only: true }", "Unlock { sub: 1, which: Oldest }", "DeadGet(LastClosed)"
    let num = |key: &str| -> Option<u8> {
        let i = s.find(key)? + key.len();
        let rest = &s[i..];
        let end = rest.find(|c: char| !c.is_ascii_digit()).unwrap_or(rest.len());
        rest[..end].parse().ok()
    };
    let dead = || {
        if s.contains("LastClosed") {
            Dead::LastClosed
        } else if s.contains("FirstClosed") {
            Dead::FirstClosed
        } else if s.contains("NeverIssued") {
            Dead::NeverIssued
        } else {
            Dead::Far
        }
    };
    if s.starts_with("Lock") {
        Some(Op::Lock { sub: num("sub: ")?, read_only: s.contains("read_only: true") })
    } else if s.starts_with("Unlock") {
        Some(Op::Unlock { sub: num("sub: ")?, which: if s.contains("Newest") { Which::Newest } else { Which::Oldest } })
    } else if s.starts_with("DeadGetMut") {
        Some(Op::DeadGetMut(dead()))
    } else if s.starts_with("DeadGet") {
        Some(Op::DeadGet(dead()))
    } else if s.starts_with("DeadUnlock") {
        Some(Op::DeadUnlock(dead()))
    } else {
        None
    }
}

fn replay(ctx: Ctx) -> ! {
    let case = ctx.read_replay_case().unwrap_or_else(|| mc_core::machinery_error("no replay case"));
    let base = case.get("base").and_then(|b| b.as_str()).unwrap_or("").to_string();
    let hist: Vec<String> = case
        .get("history")
        .and_then(|h| h.as_array())
        .map(|a| a.iter().filter_map(|x| x.as_str().map(|s| s.to_string())).collect())
        .unwrap_or_default();
    if base.starts_with("L2") {
        crate::c13_l2::replay(&ctx, &hist);
    } else {
        let m = L1::new(base.contains("ordered"), true);
        let mut st = m.init();
        for (i, s) in hist.iter().enumerate() {
            if s.starts_with('<') {
                println!("step {i}: {s} (executed on a copy after every step)");
                continue;
            }
            let op = parse_op(s).unwrap_or_else(|| mc_core::machinery_error(&format!("cannot parse op {s}")));
            match mc_core::catch(|| m.step(&mut st, &op).map(|c| (c, m.fingerprint(&st)))) {
                Ok(Ok((class, _))) => println!("step {i}: {op:?} -> {class}"),
                Ok(Err((k, w))) => {
                    println!("step {i}: {op:?} -> VIOLATION {k}: {w}");
                    ctx.violation(k, w, case.clone());
                    break;
                }
                Err(p) => {
                    println!("step {i}: {op:?} -> harness panic {p}");
                    ctx.violation(format!("panic@{}", mc_core::last_panic_location()), p, case.clone());
                    break;
                }
            }
        }
        m.side.flush(&ctx, &base);
    }
    ctx.finish(Level::ModelChecking, "replay", 0, false, serde_json::Map::new(), &[])
}
