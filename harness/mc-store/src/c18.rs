//! C18 — pruning never removes nodes of the current state tree.
//!
//! Two real tree stores run in lock-step on every explored commit history: A = `TypedInMemoryTreeStore`
//! with pruning enabled (stale parts are removed the moment they are reported), B = the same without
//! pruning (keeps every node; `stale_part_buffer` records what each commit reported).
//! After every commit:
//!  (1) A is walked from the current root through all three tiers by the harness's own traversal over
//!      `tree_nodes` (child links `TreeChildEntry{nibble, version}`, tier links leaf payload + key
//!      prefix): every referenced node must be stored and the substate leaves reached must be exactly
//!      the model's (key, H(value)); `list_substate_hashes_at_version(A, v)` must not panic and must
//!      equal the model;
//!  (2) every part reported stale by this commit (taken from B; `Subtree` expanded through B's nodes)
//!      must be unreachable from the root produced by this commit, and the union of everything reported
//!      stale so far on the path must be unreachable from it as well ("and from every later root").
use crate::alphabet::*;
use crate::c17::{effect_class, listing_of, show_listing, HashListing};
use crate::refmerkle;
use crate::treekeys;
use mc_core::{bfs, BfsStats, Ctx, Level, Machine};
use radix_substate_store_impls::state_tree::put_at_next_version;
use radix_substate_store_impls::state_tree::tree_store::*;
use radix_substate_store_interface::interface::*;
use serde_json::json;
use std::collections::{BTreeMap, BTreeSet};

const TIER_SEPARATOR: u8 = b'_';

/// Own traversal. Returns (reachable node keys, substate leaves) or the first missing node.
pub fn walk(nodes: &dyn Fn(&StoredTreeNodeKey) -> Option<TreeNode>, version: u64) -> Result<(BTreeSet<StoredTreeNodeKey>, HashListing), String> {
    let mut reach = BTreeSet::new();
    let mut listing = HashListing::new();
    if version == 0 {
        return Ok((reach, listing));
    }
    // entity tier: unprefixed
    let entity_leaves = walk_tier(nodes, &[], version, &mut reach)?;
    for (entity_key, _hash, partition_root_version) in entity_leaves {
        let mut prefix = entity_key.clone();
        prefix.push(TIER_SEPARATOR);
        let partition_leaves = walk_tier(nodes, &prefix, partition_root_version, &mut reach)?;
        for (pkey, _hash, substate_root_version) in partition_leaves {
            if pkey.len() != 1 {
                return Err(format!("partition-tier leaf key of {} bytes under entity {}", pkey.len(), mc_core::hex(&entity_key)));
            }
            let mut prefix2 = prefix.clone();
            prefix2.push(pkey[0]);
            prefix2.push(TIER_SEPARATOR);
            let substate_leaves = walk_tier(nodes, &prefix2, substate_root_version, &mut reach)?;
            let e = listing.entry((entity_key.clone(), pkey[0])).or_default();
            for (sk, h, _) in substate_leaves {
                e.insert(sk, h);
            }
        }
    }
    Ok((reach, listing))
}

/// Walk one tier tree rooted at (root_version, prefix). Returns leaves as (full key bytes, value hash, payload version).
fn walk_tier(
    nodes: &dyn Fn(&StoredTreeNodeKey) -> Option<TreeNode>,
    prefix: &[u8],
    root_version: u64,
    reach: &mut BTreeSet<StoredTreeNodeKey>,
) -> Result<Vec<(Vec<u8>, radix_common::prelude::Hash, u64)>, String> {
    let mut out = vec![];
    let root = StoredTreeNodeKey::new(root_version, NibblePath::new_even(prefix.to_vec()));
    let mut stack = vec![root];
    let prefix_nibbles = prefix.len() * 2;
    while let Some(key) = stack.pop() {
        let Some(node) = nodes(&key) else {
            return Err(format!("node (version {}, path {:?}) is referenced from the current root but not stored", key.version(), key.nibble_path()));
        };
        reach.insert(key.clone());
        match node {
            TreeNodeV1::Internal(internal) => {
                for c in internal.children.iter().rev() {
                    stack.push(key.gen_child_node_key(c.version, c.nibble));
                }
            }
            TreeNodeV1::Leaf(leaf) => {
                let full = NibblePath::from_iter(key.nibble_path().nibbles().skip(prefix_nibbles).chain(leaf.key_suffix.nibbles()));
                if full.num_nibbles() % 2 != 0 {
                    return Err(format!("leaf under (version {}, path {:?}) has an odd number of key nibbles", key.version(), key.nibble_path()));
                }
                out.push((full.bytes().to_vec(), leaf.value_hash, leaf.last_hash_change_version));
            }
            TreeNodeV1::Null => {
                if key.nibble_path().num_nibbles() != prefix_nibbles {
                    return Err("Null node below a tier root".into());
                }
            }
        }
    }
    out.sort();
    Ok(out)
}

/// Node keys covered by a reported stale part, expanded through the complete (non-pruning) store.
fn expand(b: &TypedInMemoryTreeStore, part: &StaleTreePart) -> Vec<StoredTreeNodeKey> {
    match part {
        StaleTreePart::Node(k) => vec![k.clone()],
        StaleTreePart::Subtree(k) => {
            let mut out = vec![];
            let mut stack = vec![k.clone()];
            while let Some(key) = stack.pop() {
                let node = b.tree_nodes.borrow().get(&key).cloned();
                out.push(key.clone());
                if let Some(TreeNodeV1::Internal(internal)) = node {
                    for c in internal.children {
                        stack.push(key.gen_child_node_key(c.version, c.nibble));
                    }
                }
            }
            out
        }
    }
}

struct St {
    hist: Vec<u16>,
    a: TypedInMemoryTreeStore,
    b: TypedInMemoryTreeStore,
    version: u64,
    model: RefDb,
    dead: BTreeSet<StoredTreeNodeKey>,
}

struct M18 {
    commits: Vec<Commit>,
    updates: Vec<DatabaseUpdates>,
    offset: usize,
}

static PRUNED_NODES: std::sync::atomic::AtomicU64 = std::sync::atomic::AtomicU64::new(0);
static STALE_SUBTREES: std::sync::atomic::AtomicU64 = std::sync::atomic::AtomicU64::new(0);

impl Machine for M18 {
    type Op = OpIx;
    type St = St;

    fn init(&self) -> St {
        St { hist: vec![], a: TypedInMemoryTreeStore::new().with_pruning_enabled(), b: TypedInMemoryTreeStore::new(), version: 0, model: RefDb::default(), dead: BTreeSet::new() }
    }

    fn ops(&self, _st: &St, _depth: usize) -> Vec<OpIx> {
        (0..self.commits.len()).map(|i| OpIx((i + self.offset) as u16)).collect()
    }

    fn fork(&self, st: &St) -> Option<St> {
        Some(St { hist: st.hist.clone(), a: st.a.clone(), b: st.b.clone(), version: st.version, model: st.model.clone(), dead: st.dead.clone() })
    }

    fn step(&self, st: &mut St, op: &OpIx) -> Result<String, (String, String)> {
        let i = op.0 as usize - self.offset;
        let commit = &self.commits[i];
        let du = &self.updates[i];
        st.hist.push(i as u16);
        let before = st.model.clone();
        st.model.apply(commit);
        let cur = Some(st.version).filter(|v| *v > 0);
        let root_a = match mc_core::catch(|| put_at_next_version(&st.a, cur, du)) {
            Ok(r) => r,
            Err(p) => return Err(("commit-on-pruned-store-panics".into(), format!("put_at_next_version on the pruning store panicked at {}: {p}", mc_core::last_panic_location()))),
        };
        let root_b = put_at_next_version(&st.b, cur, du);
        st.version += 1;
        if root_a != root_b {
            return Err(("pruned-root-differs".into(), format!("root with pruning {} vs without {}", mc_core::hex(&root_a.0), mc_core::hex(&root_b.0))));
        }

        // (1) the current tree of the pruning store is complete
        let a_nodes = |k: &StoredTreeNodeKey| st.a.tree_nodes.borrow().get(k).cloned();
        let (reach_a, listing_a) = walk(&a_nodes, st.version).map_err(|e| ("reachable-node-pruned".to_string(), e))?;
        let want = refmerkle::substate_hashes(&st.model);
        if listing_a != want {
            return Err(("current-tree-leaves".into(), format!("leaves reachable in the pruning store {} but the substates are {}", show_listing(&listing_a), show_listing(&want))));
        }
        match mc_core::catch(|| listing_of(&st.a, st.version)) {
            Ok(l) if l == want => {}
            Ok(l) => return Err(("current-tree-listing".into(), format!("list_substate_hashes_at_version on the pruning store gives {} but the substates are {}", show_listing(&l), show_listing(&want)))),
            Err(p) => return Err(("current-tree-unreadable".into(), format!("list_substate_hashes_at_version on the pruning store panicked: {p}"))),
        }

        // (2) everything reported stale is dead
        let b_nodes = |k: &StoredTreeNodeKey| st.b.tree_nodes.borrow().get(k).cloned();
        let (reach_b, _) = walk(&b_nodes, st.version).map_err(|e| ("machinery:complete-store-walk".to_string(), e))?;
        if reach_a != reach_b {
            return Err(("reachable-sets-differ".into(), "the pruning and the non-pruning store reach different node sets from the same root".into()));
        }
        let reported: Vec<StaleTreePart> = std::mem::take(&mut *st.b.stale_part_buffer.borrow_mut());
        let mut subtrees = 0;
        for part in &reported {
            if matches!(part, StaleTreePart::Subtree(_)) {
                subtrees += 1;
            }
            for k in expand(&st.b, part) {
                if reach_b.contains(&k) {
                    return Err((
                        "stale-part-still-reachable".into(),
                        format!("commit reported {:?} as stale but node (version {}, path {:?}) is reachable from the root it produced (version {})", part, k.version(), k.nibble_path(), st.version),
                    ));
                }
                st.dead.insert(k);
            }
        }
        if let Some(k) = st.dead.iter().find(|k| reach_b.contains(*k)) {
            return Err((
                "stale-part-reachable-from-later-root".into(),
                format!("node (version {}, path {:?}) was reported stale by an earlier commit but is reachable from the root of version {}", k.version(), k.nibble_path(), st.version),
            ));
        }
        STALE_SUBTREES.fetch_add(subtrees, std::sync::atomic::Ordering::Relaxed);
        PRUNED_NODES.fetch_add(reported.len() as u64, std::sync::atomic::Ordering::Relaxed);
        let stale_kind = if subtrees > 0 {
            "+subtree-stale"
        } else if reported.is_empty() {
            "+nothing-stale"
        } else {
            "+nodes-stale"
        };
        let c = if commit.0.len() == 1 { effect_class(&before, &st.model, &commit.0[0]) } else { format!("multi-partition:{}", if st.model.parts.is_empty() { "state-emptied" } else if st.model.len() > before.len() { "grew" } else if st.model.len() < before.len() { "shrank" } else { "same-size" }) };
        Ok(format!("{c}{stale_kind}"))
    }

    fn fingerprint(&self, st: &St) -> Vec<u8> {
        // The reachable tree is determined by the substate map up to node versions; versions are fresh
        // per commit, so behaviour of later commits depends on the map only.
        mc_core::fp128(&st.model.canonical_bytes())
    }
}

/// C17's atoms plus the macro commits: wipe an entity (by resets / by deleting every key) and re-create it.
fn alphabet(full: bool) -> Vec<Commit> {
    let mut out: Vec<Commit> = treekeys::atoms(false, full).into_iter().map(Commit::one).collect();
    let e = treekeys::entities();
    let ks = treekeys::sort_keys();
    let ps = treekeys::partitions();
    for n in [&e[0], &e[1]] {
        // wipe by resetting every partition of the entity (present or not)
        out.push(Commit(ps.iter().map(|p| Atom::new(n, *p, PU::Reset(vec![]))).collect()));
        // wipe by deleting every key of every partition
        out.push(Commit(ps.iter().map(|p| Atom::new(n, *p, PU::Delta(ks.iter().map(|k| (k.clone(), None)).collect()))).collect()));
        // re-create: two partitions, keys sharing a long prefix
        out.push(Commit(vec![
            Atom::new(n, ps[0], PU::Delta(vec![(ks[0].clone(), Some(treekeys::V1.to_vec())), (ks[1].clone(), Some(treekeys::V2.to_vec()))])),
            Atom::new(n, ps[1], PU::Reset(vec![(ks[2].clone(), treekeys::V1.to_vec())])),
        ]));
    }
    // two-partition commits across entities
    out.push(Commit(vec![Atom::new(&e[0], ps[0], PU::Delta(vec![(ks[0].clone(), None)])), Atom::new(&e[1], ps[0], PU::Delta(vec![(ks[3].clone(), Some(treekeys::V1.to_vec()))]))]));
    out.push(Commit(vec![Atom::new(&e[0], ps[0], PU::Reset(vec![])), Atom::new(&e[2], ps[2], PU::Reset(vec![(ks[1].clone(), treekeys::V2.to_vec())]))]));
    out
}

pub fn run(ctx: Ctx) -> ! {
    if let Some(case) = ctx.read_replay_case() {
        replay(ctx, case);
    }
    let plan: Vec<(bool, usize, &str)> = if ctx.quick() { vec![(false, 4, "core")] } else { vec![(false, 7, "core"), (true, 4, "all-updates")] };
    let mut table = vec![];
    let mut offsets = vec![];
    for (full, _, _) in &plan {
        offsets.push(table.len());
        table.extend(alphabet(*full));
    }
    install_table(table);
    let mut total = BfsStats::default();
    let mut exhaustive = true;
    let mut searches = serde_json::Map::new();
    for (pi, (full, depth, name)) in plan.iter().enumerate() {
        let commits = alphabet(*full);
        let updates = commits.iter().map(|c| c.to_database_updates()).collect();
        let m = M18 { commits, updates, offset: offsets[pi] };
        let s = bfs(&ctx, &m, name, *depth, 30_000_000, ctx.pick(45.0, 600.0));
        if s.capped {
            exhaustive = false;
        }
        searches.insert(format!("{name}:depth{depth}"), json!({"alphabet": m.commits.len(), "states": s.states, "transitions": s.transitions, "depth_completed": s.depth_completed, "capped": s.capped, "per_depth_new_states": s.per_depth_states}));
        total.add(&s);
    }
    let mut cov = total.coverage();
    cov.insert("searches".into(), serde_json::Value::Object(searches));
    cov.insert("stale_parts_checked".into(), json!(PRUNED_NODES.load(std::sync::atomic::Ordering::Relaxed)));
    cov.insert("stale_subtrees_checked".into(), json!(STALE_SUBTREES.load(std::sync::atomic::Ordering::Relaxed)));
    let nontrivial = total.states;
    ctx.finish(
        Level::ModelChecking,
        "a state is a distinct substate map; a transition is one commit applied to a pruning and a non-pruning real tree store in lock-step, followed by the harness's own three-tier reachability walk of the pruning store, the listing API, and the check that every stale part reported on the path so far is unreachable; non-trivial = distinct substate maps reached",
        nontrivial,
        exhaustive,
        cov,
        &[
            "keys respect the tree's documented precondition (equal-length keys per tier)",
            "dedup by substate map: node versions are fresh per commit, so later behaviour depends on the reachable tree, which the map determines up to versions; the accumulated dead set is that of the first history found",
            "nodes that are neither reachable nor reported stale (e.g. Null roots of emptied tiers) are leaks, not covered by the statement, and ignored",
        ],
    )
}

fn replay(ctx: Ctx, case: serde_json::Value) -> ! {
    let hist = history_from_case(&case);
    install_table(hist.clone());
    let updates = hist.iter().map(|c| c.to_database_updates()).collect();
    let m = M18 { commits: hist.clone(), updates, offset: 0 };
    let mut st = m.init();
    for i in 0..hist.len() {
        match mc_core::catch(|| m.step(&mut st, &OpIx(i as u16))) {
            Ok(Ok(c)) => println!("step {i} {:?}: ok ({c}); pruning store holds {} nodes, complete store {}", hist[i], st.a.tree_nodes.borrow().len(), st.b.tree_nodes.borrow().len()),
            Ok(Err((k, w))) => {
                println!("step {i} {:?}: VIOLATION {k}: {w}", hist[i]);
                ctx.violation(k, w, case.clone());
                break;
            }
            Err(p) => {
                println!("step {i} {:?}: PANIC {p}", hist[i]);
                ctx.violation(format!("panic@{}", mc_core::last_panic_location()), p, case.clone());
                break;
            }
        }
    }
    let _: BTreeMap<u8, u8> = BTreeMap::new();
    ctx.finish(Level::ModelChecking, "replay", 0, false, serde_json::Map::new(), &[])
}
