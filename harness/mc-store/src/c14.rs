//! C14 — a database overlay behaves like the database with the commits applied.
//!
//! Explicit-state exploration of commit histories on the real `SubstateDatabaseOverlay` over three base
//! contents. After every commit the overlay (unmergeable flavour, rebuilt from the history) is compared
//! with the base database that received the same commits directly (the right-hand side of the
//! statement): point reads, listings from the start and from eight cursors, for five partitions; then a
//! mergeable overlay with the same history is merged into a copy of the base and the whole database is
//! compared. `list_partition_keys` of the overlay is not part of the statement and is not compared.
use crate::alphabet::*;
use mc_core::{bfs, BfsStats, Ctx, Level, Machine};
use radix_substate_store_impls::memory_db::InMemorySubstateDatabase;
use radix_substate_store_impls::substate_database_overlay::SubstateDatabaseOverlay;
use radix_substate_store_interface::interface::*;
use serde_json::json;
use std::collections::BTreeMap;

const A: &[u8] = &[0xA0];
const B: &[u8] = &[0xB0];

fn sort_keys() -> Vec<Sort> {
    vec![vec![0], vec![1], vec![1, 0], vec![2]]
}

/// cursors: every key, a key between two keys (two of them), before everything, past the end
fn cursors() -> Vec<Sort> {
    vec![vec![], vec![0], vec![0, 5], vec![1], vec![1, 0], vec![1, 0, 0], vec![2], vec![9]]
}

fn observed_partitions() -> Vec<PKey> {
    vec![(A.to_vec(), 0), (A.to_vec(), 1), (B.to_vec(), 0), (B.to_vec(), 1), (A.to_vec(), 7)]
}

fn bases() -> Vec<(&'static str, Commit)> {
    let set = |k: &[u8], v: u8| (k.to_vec(), vec![v]);
    vec![
        ("empty", Commit(vec![])),
        ("sparse", Commit(vec![Atom::new(A, 0, PU::Reset(vec![set(&[1], 0xB1), set(&[1, 0], 0xB2)])), Atom::new(B, 1, PU::Reset(vec![set(&[0], 0xB3)]))])),
        (
            "dense",
            Commit(vec![
                Atom::new(A, 0, PU::Reset(vec![set(&[0], 0xC0), set(&[1], 0xC1), set(&[1, 0], 0xC2), set(&[2], 0xC3)])),
                Atom::new(A, 1, PU::Reset(vec![set(&[0], 0xC4), set(&[2], 0xC5)])),
                Atom::new(B, 0, PU::Reset(vec![set(&[1, 0], 0xC6)])),
                Atom::new(B, 1, PU::Reset(vec![set(&[1], 0xC7), set(&[2], 0xC8)])),
            ]),
        ),
    ]
}

/// Commit alphabet. `full` = every (key, value) combination of the design; otherwise the core subset.
fn alphabet(full: bool) -> Vec<Commit> {
    let ks = sort_keys();
    let v1 = vec![1u8];
    let v2 = vec![2u8];
    let mut out = vec![];
    for (node, part) in [(A, 0u8), (A, 1), (B, 0)] {
        let mut push = |pu: PU| out.push(Commit::one(Atom::new(node, part, pu)));
        // sets
        for (i, k) in ks.iter().enumerate() {
            push(PU::Delta(vec![(k.clone(), Some(v1.clone()))]));
            if full || i == 1 {
                push(PU::Delta(vec![(k.clone(), Some(v2.clone()))]));
            }
        }
        // deletes
        for k in &ks {
            push(PU::Delta(vec![(k.clone(), None)]));
        }
        // set k; delete k'
        for (i, k) in ks.iter().enumerate() {
            for (j, k2) in ks.iter().enumerate() {
                if i == j {
                    continue;
                }
                if full || j == (i + 1) % ks.len() {
                    push(PU::Delta(vec![(k.clone(), Some(v2.clone())), (k2.clone(), None)]));
                }
            }
        }
        // resets
        push(PU::Reset(vec![]));
        for (i, k) in ks.iter().enumerate() {
            if full || i == 1 || i == 2 {
                push(PU::Reset(vec![(k.clone(), v1.clone())]));
            }
        }
        for i in 0..ks.len() {
            for j in (i + 1)..ks.len() {
                if full || (i, j) == (0, 3) || (i, j) == (1, 2) {
                    push(PU::Reset(vec![(ks[i].clone(), v1.clone()), (ks[j].clone(), v2.clone())]));
                }
            }
        }
    }
    // two-partition commits
    out.push(Commit(vec![Atom::new(A, 0, PU::Delta(vec![(vec![1], Some(v2.clone()))])), Atom::new(A, 1, PU::Reset(vec![]))]));
    out.push(Commit(vec![Atom::new(A, 0, PU::Reset(vec![(vec![1, 0], v1.clone())])), Atom::new(B, 0, PU::Delta(vec![(vec![1, 0], None)]))]));
    out
}

struct St {
    hist: Vec<usize>,
    /// the base database that received the same commits directly (the statement's right-hand side)
    oracle: InMemorySubstateDatabase,
    /// independent plain-map reference (informational cross-check of the oracle)
    model: RefDb,
    /// harness-side bookkeeping for outcome classes: what the overlay should hold per partition
    staged: BTreeMap<PKey, &'static str>,
}

struct M14 {
    base: InMemorySubstateDatabase,
    base_model: RefDb,
    commits: Vec<Commit>,
    updates: Vec<DatabaseUpdates>,
}

impl M14 {
    fn new(base_commit: &Commit, commits: Vec<Commit>) -> Self {
        let mut base = InMemorySubstateDatabase::standard();
        base.commit(&base_commit.to_database_updates());
        let mut base_model = RefDb::default();
        base_model.apply(base_commit);
        let updates = commits.iter().map(|c| c.to_database_updates()).collect();
        M14 { base, base_model, commits, updates }
    }

    /// Compare everything the statement names between a database-like `x` and the oracle.
    fn compare<D: SubstateDatabase>(&self, x: &D, st: &St, who: &str) -> Result<(), (String, String)> {
        let ks = sort_keys();
        for p in observed_partitions() {
            for k in ks.iter().chain(std::iter::once(&vec![3u8])) {
                let got = real_get(x, &p, k);
                let want = real_get(&st.oracle, &p, k);
                if got != want {
                    return Err((format!("{who}:read"), format!("read {}/{} key {}: overlay {} vs base-with-commits {}", mc_core::hex(&p.0), p.1, mc_core::hex(k), show_opt(&got), show_opt(&want))));
                }
                if want != st.model.get(&p, k) {
                    return Err(("info".into(), "base-db-read-differs-from-plain-map-model".into()));
                }
            }
            let got = real_list(x, &p, None);
            let want = real_list(&st.oracle, &p, None);
            if got != want {
                return Err((format!("{who}:list-from-start"), format!("listing {}/{} from start: overlay {} vs base-with-commits {}", mc_core::hex(&p.0), p.1, show_list(&got), show_list(&want))));
            }
            if want != st.model.list_from(&p, None) {
                return Err(("info".into(), "base-db-listing-differs-from-plain-map-model".into()));
            }
            for c in cursors() {
                let got = real_list(x, &p, Some(&c));
                let want = real_list(&st.oracle, &p, Some(&c));
                if got != want {
                    return Err((
                        format!("{who}:list-from-cursor"),
                        format!("listing {}/{} from cursor {}: overlay {} vs base-with-commits {}", mc_core::hex(&p.0), p.1, mc_core::hex(&c), show_list(&got), show_list(&want)),
                    ));
                }
                if want != st.model.list_from(&p, Some(&c)) {
                    return Err(("info".into(), "base-db-listing-differs-from-plain-map-model".into()));
                }
            }
        }
        Ok(())
    }
}

static INFO_TOTAL: std::sync::Mutex<BTreeMap<String, u64>> = std::sync::Mutex::new(BTreeMap::new());

fn note_info(s: &str) {
    *INFO_TOTAL.lock().unwrap().entry(s.to_string()).or_insert(0) += 1;
}

impl Machine for M14 {
    type Op = OpIx;
    type St = St;

    fn init(&self) -> St {
        St { hist: vec![], oracle: self.base.clone(), model: self.base_model.clone(), staged: BTreeMap::new() }
    }

    fn ops(&self, _st: &St, _depth: usize) -> Vec<OpIx> {
        (0..self.commits.len()).map(|i| OpIx(i as u16)).collect()
    }

    fn fork(&self, st: &St) -> Option<St> {
        Some(St { hist: st.hist.clone(), oracle: st.oracle.clone(), model: st.model.clone(), staged: st.staged.clone() })
    }

    fn step(&self, st: &mut St, op: &OpIx) -> Result<String, (String, String)> {
        let i = op.0 as usize;
        st.hist.push(i);
        st.oracle.commit(&self.updates[i]);
        st.model.apply(&self.commits[i]);
        // class bookkeeping (what kind of merge the overlay had to perform)
        let mut class = vec![];
        for a in &self.commits[i].0 {
            let prev = st.staged.get(&a.pkey()).copied().unwrap_or("none");
            class.push(format!("{}-onto-{}", a.pu.kind(), prev));
            let now = match (&a.pu, prev) {
                (PU::Reset(_), _) => "reset",
                (PU::Delta(_), "reset") => "reset",
                (PU::Delta(_), _) => "delta",
            };
            st.staged.insert(a.pkey(), now);
        }
        let class = class.join("&");

        // reads through an unmergeable overlay holding the whole history
        let mut ov = SubstateDatabaseOverlay::new_unmergeable(&self.base);
        for &j in &st.hist {
            ov.commit(&self.updates[j]);
        }
        match self.compare(&ov, st, "overlay") {
            Ok(()) => {}
            Err((k, w)) if k == "info" => note_info(&w),
            Err(e) => return Err(e),
        }
        drop(ov);

        // merge clause: a mergeable overlay with the same history, merged into a copy of the base
        let mut merged_base = self.base.clone();
        {
            let mut ov = SubstateDatabaseOverlay::new_mergeable(&mut merged_base);
            for &j in &st.hist {
                ov.commit(&self.updates[j]);
            }
            ov.commit_overlay_into_root_store();
            // the (now empty) overlay over the merged root must still read like the oracle
            match self.compare(&ov, st, "overlay-after-merge") {
                Ok(()) => {}
                Err((k, w)) if k == "info" => note_info(&w),
                Err(e) => return Err(e),
            }
        }
        if merged_base != st.oracle {
            let got = real_contents(&merged_base);
            let want = real_contents(&st.oracle);
            return Err(("merge:whole-database".into(), format!("merged base {} vs base-with-commits {}", got.to_json(), want.to_json())));
        }
        Ok(class)
    }

    fn fingerprint(&self, st: &St) -> Vec<u8> {
        // The overlay's whole state is its staged updates (the base never changes inside one search).
        let mut ov = SubstateDatabaseOverlay::new_unmergeable(&self.base);
        for &j in &st.hist {
            ov.commit(&self.updates[j]);
        }
        let bytes = radix_common::prelude::scrypto_encode(&ov.database_updates()).expect("encodable");
        mc_core::fp128(&bytes)
    }
}

pub fn run(ctx: Ctx) -> ! {
    if let Some(case) = ctx.read_replay_case() {
        replay(ctx, case);
    }
    // thorough: the full alphabet at depth 3 and the core alphabet at depth 5 are both explored
    let plan: Vec<(bool, usize)> = if ctx.quick() { vec![(false, 3)] } else { vec![(true, 3), (false, 5)] };
    let mut total = BfsStats::default();
    let mut exhaustive = true;
    let mut table = vec![];
    let mut offsets = vec![];
    for (full, _) in &plan {
        offsets.push(table.len());
        table.extend(alphabet(*full));
    }
    install_table(table.clone());
    let mut cov_extra = serde_json::Map::new();
    for (pi, (full, depth)) in plan.iter().enumerate() {
        let commits: Vec<Commit> = alphabet(*full);
        for (tag, base_commit) in bases() {
            let m = M14Offset { inner: M14::new(&base_commit, commits.clone()), offset: offsets[pi] };
            let wall_cap = ctx.pick(40.0, 170.0);
            let s = bfs(&ctx, &m, tag, *depth, 40_000_000, wall_cap);
            if s.capped {
                exhaustive = false;
            }
            cov_extra.insert(
                format!("{}:{}:depth{}", if *full { "full-alphabet" } else { "core-alphabet" }, tag, depth),
                json!({"alphabet": commits.len(), "states": s.states, "transitions": s.transitions, "depth_completed": s.depth_completed, "capped": s.capped}),
            );
            total.add(&s);
        }
    }
    for (k, v) in INFO_TOTAL.lock().unwrap().iter() {
        ctx.info(k, *v);
    }
    let mut cov = total.coverage();
    cov.insert("searches".into(), serde_json::Value::Object(cov_extra));
    cov.insert("bases".into(), json!(["empty", "sparse", "dense"]));
    let nontrivial = total.states;
    ctx.finish(
        Level::ModelChecking,
        "a state is a distinct staged-update content of the real overlay (fingerprint of database_updates()) per base; a transition is one commit followed by all reads/listings on 5 partitions (5 point reads, listing from start, 8 cursors) plus a merge into a copy of the base; non-trivial = distinct overlay states reached",
        nontrivial,
        exhaustive,
        cov,
        &[
            "the base is an InMemorySubstateDatabase; other base implementations are covered by C15",
            "dedup by overlay content: the overlay's behaviour is a function of its staged updates and the (fixed) base",
        ],
    )
}

/// Same machine, but op handles are offsets into the global commit table (several alphabets per run).
struct M14Offset {
    inner: M14,
    offset: usize,
}

impl Machine for M14Offset {
    type Op = OpIx;
    type St = St;
    fn init(&self) -> St {
        self.inner.init()
    }
    fn ops(&self, st: &St, depth: usize) -> Vec<OpIx> {
        self.inner.ops(st, depth).into_iter().map(|o| OpIx(o.0 + self.offset as u16)).collect()
    }
    fn fork(&self, st: &St) -> Option<St> {
        self.inner.fork(st)
    }
    fn step(&self, st: &mut St, op: &OpIx) -> Result<String, (String, String)> {
        self.inner.step(st, &OpIx(op.0 - self.offset as u16))
    }
    fn fingerprint(&self, st: &St) -> Vec<u8> {
        self.inner.fingerprint(st)
    }
}

fn replay(ctx: Ctx, case: serde_json::Value) -> ! {
    let hist = history_from_case(&case);
    let tag = case.get("base").and_then(|b| b.as_str()).unwrap_or("empty").to_string();
    let base_commit = bases().into_iter().find(|(t, _)| *t == tag).map(|(_, c)| c).unwrap_or_else(|| mc_core::machinery_error("unknown base in replay case"));
    install_table(hist.clone());
    let m = M14::new(&base_commit, hist.clone());
    let mut st = m.init();
    for i in 0..hist.len() {
        match m.step(&mut st, &OpIx(i as u16)) {
            Ok(c) => println!("step {i} {:?}: ok ({c})", hist[i]),
            Err((k, w)) => {
                println!("step {i} {:?}: VIOLATION {k}: {w}", hist[i]);
                ctx.violation(k, w, case.clone());
                break;
            }
        }
    }
    ctx.finish(Level::ModelChecking, "replay", 0, false, serde_json::Map::new(), &[])
}
