//! C17 — the state root commits exactly to the current substates.
//!
//! Explicit-state exploration of single-update commit histories on the real `put_at_next_version`
//! (over a `TypedInMemoryTreeStore` without pruning) and on `StateTreeUpdatingDatabase`. After every
//! commit: root == independent sparse-Merkle commitment of the model map (refmerkle), empty state ==
//! all-zero root, `list_substate_hashes_at_version` == {H(value)} of the model. Batch independence:
//! the history reaching every transition is also replayed from scratch in every other batching
//! (all 2^(n-1) compositions of its n updates, updates of one partition inside a batch composed the way
//! `DatabaseUpdates` requires) and must end in the same root and listing.
use crate::alphabet::*;
use crate::refmerkle;
use crate::treekeys;
use mc_core::{bfs, BfsStats, Ctx, Level, Machine};
use radix_common::prelude::Hash;
use radix_substate_store_impls::memory_db::InMemorySubstateDatabase;
use radix_substate_store_impls::state_tree::tree_store::{ReadableTreeStore, TypedInMemoryTreeStore};
use radix_substate_store_impls::state_tree::{list_substate_hashes_at_version, put_at_next_version};
use radix_substate_store_impls::state_tree_support::StateTreeUpdatingDatabase;
use radix_substate_store_interface::interface::*;
use serde_json::json;
use std::collections::BTreeMap;

pub type HashListing = BTreeMap<PKey, BTreeMap<Sort, Hash>>;

pub fn listing_of<S: ReadableTreeStore>(store: &S, version: u64) -> HashListing {
    let mut out = HashListing::new();
    if version == 0 {
        return out; // no root exists before the first commit (documented: the caller passes None)
    }
    for (pk, m) in list_substate_hashes_at_version(store, version) {
        let e = out.entry((pk.node_key, pk.partition_num)).or_default();
        for (k, h) in m {
            e.insert(k.0, h);
        }
    }
    out
}

pub fn show_listing(l: &HashListing) -> String {
    let v: Vec<String> = l
        .iter()
        .map(|((n, p), m)| format!("{}/{}:{{{}}}", mc_core::hex(n), p, m.iter().map(|(k, h)| format!("{}:{}", mc_core::hex(k), &mc_core::hex(&h.0)[..8])).collect::<Vec<_>>().join(",")))
        .collect();
    format!("[{}]", v.join(" "))
}

/// Outcome class of applying `a` to `before` (harness-side description of what the commit did).
pub fn effect_class(before: &RefDb, after: &RefDb, a: &Atom) -> String {
    let kind = match &a.pu {
        PU::Delta(v) if v.iter().all(|(_, x)| x.is_some()) => "set",
        PU::Delta(v) if v.iter().all(|(_, x)| x.is_none()) => "delete",
        PU::Delta(_) => "set+delete",
        PU::Reset(v) if v.is_empty() => "reset-to-empty",
        PU::Reset(_) => "reset-to-values",
    };
    let pk = a.pkey();
    let b = before.parts.get(&pk);
    let n = after.parts.get(&pk);
    let entity_before = before.parts.keys().any(|k| k.0 == a.node);
    let entity_after = after.parts.keys().any(|k| k.0 == a.node);
    let effect = if b == n {
        "noop"
    } else if after.parts.is_empty() {
        "state-emptied"
    } else if before.parts.is_empty() {
        "first-substate"
    } else if entity_before && !entity_after {
        "entity-removed"
    } else if !entity_before && entity_after {
        "entity-created"
    } else if b.is_some() && n.is_none() {
        "partition-removed"
    } else if b.is_none() && n.is_some() {
        "partition-created"
    } else {
        let (bl, nl) = (b.map(|m| m.len()).unwrap_or(0), n.map(|m| m.len()).unwrap_or(0));
        if nl > bl {
            "partition-grew"
        } else if nl < bl {
            "partition-shrank"
        } else {
            "values-changed"
        }
    };
    format!("{kind}:{effect}")
}

struct St {
    hist: Vec<u16>,
    tree: TypedInMemoryTreeStore,
    version: u64,
    root: Hash,
    stdb: StateTreeUpdatingDatabase<InMemorySubstateDatabase>,
    model: RefDb,
}

struct M17 {
    atoms: Vec<Atom>,
    updates: Vec<DatabaseUpdates>,
    offset: usize,
}

fn put(tree: &TypedInMemoryTreeStore, version: u64, du: &DatabaseUpdates) -> Hash {
    put_at_next_version(tree, Some(version).filter(|v| *v > 0), du)
}

impl M17 {
    fn check_batchings(&self, st: &St) -> Result<u64, (String, String)> {
        let n = st.hist.len();
        if n < 2 {
            return Ok(0);
        }
        let atoms: Vec<&Atom> = st.hist.iter().map(|i| &self.atoms[*i as usize]).collect();
        let want_listing = refmerkle::substate_hashes(&st.model);
        let mut done = 0;
        // bit i of mask set = cut between update i and i+1; all ones = the single-update history itself
        for mask in 0..((1u32 << (n - 1)) - 1) {
            let tree = TypedInMemoryTreeStore::new();
            let mut version = 0u64;
            let mut root = refmerkle::ZERO;
            let mut group: Vec<Atom> = vec![];
            let mut shape = vec![];
            for i in 0..n {
                group.push(atoms[i].clone());
                let cut = i + 1 == n || (mask >> i) & 1 == 1;
                if cut {
                    shape.push(group.len());
                    let commit = merge_atoms(&group);
                    root = put(&tree, version, &commit.to_database_updates());
                    version += 1;
                    group.clear();
                }
            }
            done += 1;
            if root != st.root {
                return Err((
                    "batching:root".into(),
                    format!("batch sizes {:?} of the same updates give root {} but one-update-per-commit gives {}", shape, mc_core::hex(&root.0), mc_core::hex(&st.root.0)),
                ));
            }
            let got = listing_of(&tree, version);
            if got != want_listing {
                return Err(("batching:listing".into(), format!("batch sizes {:?}: tree lists {} but the substates are {}", shape, show_listing(&got), show_listing(&want_listing))));
            }
        }
        Ok(done)
    }
}

static BATCHINGS: std::sync::atomic::AtomicU64 = std::sync::atomic::AtomicU64::new(0);

impl Machine for M17 {
    type Op = OpIx;
    type St = St;

    fn init(&self) -> St {
        St {
            hist: vec![],
            tree: TypedInMemoryTreeStore::new(),
            version: 0,
            root: refmerkle::ZERO,
            stdb: StateTreeUpdatingDatabase::new(InMemorySubstateDatabase::standard()),
            model: RefDb::default(),
        }
    }

    fn ops(&self, _st: &St, _depth: usize) -> Vec<OpIx> {
        (0..self.atoms.len()).map(|i| OpIx((i + self.offset) as u16)).collect()
    }

    fn fork(&self, st: &St) -> Option<St> {
        Some(St { hist: st.hist.clone(), tree: st.tree.clone(), version: st.version, root: st.root, stdb: st.stdb.clone(), model: st.model.clone() })
    }

    fn step(&self, st: &mut St, op: &OpIx) -> Result<String, (String, String)> {
        let i = op.0 as usize - self.offset;
        let atom = &self.atoms[i];
        let du = &self.updates[i];
        if st.version == 0 && st.stdb.get_current_root_hash() != refmerkle::ZERO {
            return Err(("empty-root".into(), "a fresh StateTreeUpdatingDatabase does not report the all-zero root".into()));
        }
        st.hist.push(i as u16);
        let before = st.model.clone();
        st.model.apply_atom(atom);
        st.root = put(&st.tree, st.version, du);
        st.version += 1;
        st.stdb.commit(du);

        let want_root = refmerkle::state_root(&st.model);
        if st.model.parts.is_empty() && st.root != refmerkle::ZERO {
            return Err(("empty-root".into(), format!("the state is empty but the root is {}", mc_core::hex(&st.root.0))));
        }
        if st.root != want_root {
            return Err((
                "root-vs-reference".into(),
                format!("put_at_next_version root {} but the commitment of the current substates {} is {}", mc_core::hex(&st.root.0), st.model.to_json(), mc_core::hex(&want_root.0)),
            ));
        }
        if st.stdb.get_current_root_hash() != want_root || st.stdb.get_current_version() != st.version {
            return Err((
                "updating-database-root".into(),
                format!("StateTreeUpdatingDatabase (version {}, root {}) but expected (version {}, root {})", st.stdb.get_current_version(), mc_core::hex(&st.stdb.get_current_root_hash().0), st.version, mc_core::hex(&want_root.0)),
            ));
        }
        let want_listing = refmerkle::substate_hashes(&st.model);
        let got = listing_of(&st.tree, st.version);
        if got != want_listing {
            return Err(("listing".into(), format!("list_substate_hashes_at_version gives {} but the substates are {}", show_listing(&got), show_listing(&want_listing))));
        }
        let mut got2 = HashListing::new();
        for (pk, m) in st.stdb.list_substate_hashes() {
            got2.insert((pk.node_key, pk.partition_num), m.into_iter().map(|(k, h)| (k.0, h)).collect());
        }
        if got2 != want_listing {
            return Err(("updating-database-listing".into(), format!("StateTreeUpdatingDatabase lists {} but the substates are {}", show_listing(&got2), show_listing(&want_listing))));
        }
        if real_contents(&st.stdb) != st.model {
            // not named by the statement (C15 territory); only recorded
            return Ok("info:updating-database-substates-differ-from-model".into());
        }
        let n = self.check_batchings(st)?;
        BATCHINGS.fetch_add(n, std::sync::atomic::Ordering::Relaxed);
        Ok(effect_class(&before, &st.model, atom))
    }

    fn fingerprint(&self, st: &St) -> Vec<u8> {
        // the model map plus the real root: two histories reaching the same map with different roots
        // would be distinct states here and a violation in `step` (root is checked against the map)
        let mut b = st.model.canonical_bytes();
        b.extend_from_slice(&st.root.0);
        mc_core::fp128(&b)
    }
}

pub fn run(ctx: Ctx) -> ! {
    if let Some(case) = ctx.read_replay_case() {
        replay(ctx, case);
    }
    // (all 9 partitions?, every update combination?, depth)
    let plan: Vec<(bool, bool, usize, &str)> = if ctx.quick() { vec![(false, false, 4, "core")] } else { vec![(false, false, 6, "core"), (true, true, 3, "full")] };
    let mut table = vec![];
    let mut offsets = vec![];
    for (fp, fu, _, _) in &plan {
        offsets.push(table.len());
        table.extend(treekeys::atoms(*fp, *fu).into_iter().map(Commit::one));
    }
    install_table(table);
    let mut total = BfsStats::default();
    let mut exhaustive = true;
    let mut searches = serde_json::Map::new();
    for (pi, (fp, fu, depth, name)) in plan.iter().enumerate() {
        let atoms = treekeys::atoms(*fp, *fu);
        let updates = atoms.iter().map(|a| Commit::one(a.clone()).to_database_updates()).collect();
        let m = M17 { atoms, updates, offset: offsets[pi] };
        let s = bfs(&ctx, &m, name, *depth, 30_000_000, ctx.pick(45.0, 900.0));
        if s.capped {
            exhaustive = false;
        }
        searches.insert(format!("{name}:depth{depth}"), json!({"alphabet": m.atoms.len(), "states": s.states, "transitions": s.transitions, "depth_completed": s.depth_completed, "capped": s.capped, "per_depth_new_states": s.per_depth_states}));
        total.add(&s);
    }
    let mut cov = total.coverage();
    cov.insert("searches".into(), serde_json::Value::Object(searches));
    cov.insert("alternative_batchings_replayed".into(), json!(BATCHINGS.load(std::sync::atomic::Ordering::Relaxed)));
    let nontrivial = total.states;
    ctx.finish(
        Level::ModelChecking,
        "a state is a distinct (substate map, real root) pair; a transition is one single-partition commit on the real tree (root, listing, StateTreeUpdatingDatabase compared with the independent commitment) plus every alternative batching of the history that reaches it; non-trivial = distinct substate maps reached",
        nontrivial,
        exhaustive,
        cov,
        &[
            "blake2b-256 is shared between the reference commitment and the tree",
            "keys respect the tree's documented precondition: equal-length keys per tier (4-byte entity keys, 2-byte sort keys)",
            "dedup by substate map: the reachable part of the tree is determined by the map up to node versions",
            "alternative batchings are replayed for the first history found to each transition (breadth-first representative), not for every history reaching the same map",
        ],
    )
}

fn replay(ctx: Ctx, case: serde_json::Value) -> ! {
    let hist = history_from_case(&case);
    install_table(hist.clone());
    let atoms: Vec<Atom> = hist.iter().map(|c| c.0[0].clone()).collect();
    let updates = atoms.iter().map(|a| Commit::one(a.clone()).to_database_updates()).collect();
    let m = M17 { atoms, updates, offset: 0 };
    let mut st = m.init();
    for i in 0..hist.len() {
        match mc_core::catch(|| m.step(&mut st, &OpIx(i as u16))) {
            Ok(Ok(c)) => println!("step {i} {:?}: ok ({c}) root {}", hist[i], mc_core::hex(&st.root.0)),
            Ok(Err((k, w))) => {
                println!("step {i} {:?}: VIOLATION {k}: {w}", hist[i]);
                ctx.violation(k, w, case.clone());
                break;
            }
            Err(p) => {
                println!("step {i} {:?}: PANIC {p}", hist[i]);
                ctx.violation(format!("panic@{}", mc_core::last_panic_location()), p, case.clone());
                break;
            }
        }
    }
    ctx.finish(Level::ModelChecking, "replay", 0, false, serde_json::Map::new(), &[])
}
