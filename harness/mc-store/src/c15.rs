//! C15 — all substate store implementations are observationally equivalent.
//!
//! The same commit history is applied to fresh instances of the real stores, and after every commit all
//! observations the statement names are compared pairwise: every point read, the sorted listing of
//! every partition from the start and from every cursor, and the set of partitions.
//!
//! Two searches, both breadth-first over store contents. RocksDB cannot be cloned and opening a fresh
//! instance costs ~0.2 s here, so a layer's frontier is cut into a fixed number of chunks and every chunk
//! is explored on ONE long-lived set of stores (a "session"): to expand a frontier content the session
//! is first brought to it by one multi-partition reset commit, then the operation is committed. Both are
//! ordinary commits, so each session simply is one long explored history; all observations are compared
//! after every operation commit (a discrepancy caused by a positioning commit shows there, since every
//! partition is observed). A discrepancy is re-run on fresh
//! stores with the short breadth-first history to get a minimal replay; if it only shows after the long
//! history, the whole session trace is reported instead.
//!  * "tree-legal": InMemory + RocksDB + RocksDB-with-Merkle-tree, keys of equal length per tier (the
//!    Merkle store's tree documents equal-length leaf keys as a precondition; outside it its behaviour is
//!    unspecified, so it only takes part here). 0xFF runs, partition 255 and adjacent node keys exercise
//!    `delete_range_cf` bounds and the partition-end `take_while`.
//!  * "wild": InMemory + RocksDB only, with variable-length node keys ([1], [1,0], [0xFF]: length-prefix
//!    collisions), the empty sort key and prefix-related sort keys.
use crate::alphabet::*;
use mc_core::{par_map, BfsStats, Ctx, Level};
use radix_substate_store_impls::memory_db::InMemorySubstateDatabase;
use radix_substate_store_impls::rocks_db::RocksdbSubstateStore;
use radix_substate_store_impls::rocks_db_with_merkle_tree::RocksDBWithMerkleTreeSubstateStore;
use radix_substate_store_interface::interface::*;
use serde_json::json;
use std::path::PathBuf;
use std::sync::atomic::{AtomicU64, Ordering};

#[derive(Clone)]
struct KeySet {
    name: &'static str,
    nodes: Vec<NodeKey>,
    parts: Vec<u8>,
    sorts: Vec<Sort>,
    cursors: Vec<Sort>,
    absent_sort: Sort,
    with_merkle: bool,
}

fn legal() -> KeySet {
    KeySet {
        name: "tree-legal",
        nodes: vec![vec![1, 0], vec![1, 1], vec![0xFF, 0xFF]],
        parts: vec![0, 1, 255],
        sorts: vec![vec![0, 0], vec![0, 0xFF], vec![0xFF, 0], vec![0xFF, 0xFF]],
        cursors: vec![vec![], vec![0, 0], vec![0, 1], vec![0, 0xFF], vec![0x80], vec![0xFF, 0], vec![0xFF, 0x80], vec![0xFF, 0xFF], vec![0xFF, 0xFF, 0]],
        absent_sort: vec![0x7F, 0x7F],
        with_merkle: true,
    }
}

fn wild() -> KeySet {
    KeySet {
        name: "wild",
        nodes: vec![vec![1], vec![1, 0], vec![0xFF]],
        parts: vec![0, 1, 255],
        sorts: vec![vec![], vec![0], vec![0xFF], vec![0xFF, 0xFF]],
        cursors: vec![vec![], vec![0], vec![0, 0], vec![0x80], vec![0xFF], vec![0xFF, 0], vec![0xFF, 0xFF], vec![0xFF, 0xFF, 0]],
        absent_sort: vec![0x7F],
        with_merkle: false,
    }
}

fn commits(ks: &KeySet, full: bool) -> Vec<Commit> {
    let v1 = vec![0x01u8];
    let v2 = vec![0x02u8, 0xFF];
    let (n0, n1, n2) = (&ks.nodes[0], &ks.nodes[1], &ks.nodes[2]);
    let s = &ks.sorts;
    let set = |k: &Sort, v: &Val| PU::Delta(vec![(k.clone(), Some(v.clone()))]);
    let del = |k: &Sort| PU::Delta(vec![(k.clone(), None)]);
    let mut out = vec![];
    if !full {
        let (pa, pb, pc, pd) = ((n0, 0u8), (n0, 255u8), (n1, 0u8), (n2, 255u8));
        let one = |p: (&NodeKey, u8), pu: PU| Commit::one(Atom::new(p.0, p.1, pu));
        out.push(one(pa, set(&s[0], &v1)));
        out.push(one(pa, set(&s[3], &v1)));
        out.push(one(pb, set(&s[2], &v1)));
        out.push(one(pb, set(&s[3], &v2)));
        out.push(one(pc, set(&s[0], &v2)));
        out.push(one(pd, set(&s[1], &v1)));
        out.push(one(pa, del(&s[0])));
        out.push(one(pb, del(&s[3])));
        out.push(one(pc, del(&s[0])));
        out.push(one(pa, PU::Reset(vec![])));
        out.push(one(pb, PU::Reset(vec![(s[1].clone(), v1.clone())])));
        out.push(one(pc, PU::Reset(vec![])));
        out.push(Commit(vec![Atom::new(n0, 0, PU::Delta(vec![(s[2].clone(), Some(v2.clone())), (s[3].clone(), None)])), Atom::new(n0, 255, PU::Reset(vec![]))]));
        out.push(Commit(vec![Atom::new(n2, 255, PU::Reset(vec![(s[0].clone(), v1.clone()), (s[3].clone(), v2.clone())])), Atom::new(n1, 0, set(&s[3], &v1))]));
    } else {
        for (n, p) in [(n0, 0u8), (n0, 1), (n0, 255), (n1, 0), (n2, 255)] {
            let mut push = |pu: PU| out.push(Commit::one(Atom::new(n, p, pu)));
            push(set(&s[0], &v1));
            push(set(&s[2], &v1));
            push(set(&s[3], &v2));
            push(del(&s[0]));
            push(del(&s[3]));
            push(PU::Reset(vec![]));
            push(PU::Reset(vec![(s[1].clone(), v1.clone())]));
        }
        out.push(Commit(vec![Atom::new(n0, 0, PU::Delta(vec![(s[2].clone(), Some(v2.clone())), (s[3].clone(), None)])), Atom::new(n0, 255, PU::Reset(vec![]))]));
        out.push(Commit(vec![Atom::new(n2, 255, PU::Reset(vec![(s[0].clone(), v1.clone()), (s[3].clone(), v2.clone())])), Atom::new(n1, 0, set(&s[3], &v1))]));
    }
    out
}

/// Removes its directory when dropped (declared after the stores, so dropped after them).
struct DirGuard(PathBuf);
impl Drop for DirGuard {
    fn drop(&mut self) {
        let _ = std::fs::remove_dir_all(&self.0);
    }
}

/// Everything the statement names, read from one store.
#[derive(PartialEq, Eq)]
struct Obs {
    reads: Vec<Option<Val>>,
    lists: Vec<Vec<(Sort, Val)>>,
    partitions: Vec<PKey>,
}

fn extra_node() -> NodeKey {
    vec![0x55u8, 0x55]
}

fn observe<D: SubstateDatabase + ListableSubstateDatabase>(ks: &KeySet, db: &D) -> Obs {
    let mut reads = vec![];
    let mut lists = vec![];
    for n in ks.nodes.iter().chain(std::iter::once(&extra_node())) {
        for p in &ks.parts {
            let pk = (n.clone(), *p);
            for k in ks.sorts.iter().chain(std::iter::once(&ks.absent_sort)) {
                reads.push(real_get(db, &pk, k));
            }
            lists.push(real_list(db, &pk, None));
            for c in &ks.cursors {
                lists.push(real_list(db, &pk, Some(c)));
            }
        }
    }
    Obs { reads, lists, partitions: real_partition_keys(db) }
}

fn observe_model(ks: &KeySet, db: &RefDb) -> Obs {
    let mut reads = vec![];
    let mut lists = vec![];
    for n in ks.nodes.iter().chain(std::iter::once(&extra_node())) {
        for p in &ks.parts {
            let pk = (n.clone(), *p);
            for k in ks.sorts.iter().chain(std::iter::once(&ks.absent_sort)) {
                reads.push(db.get(&pk, k));
            }
            lists.push(db.list_from(&pk, None));
            for c in &ks.cursors {
                lists.push(db.list_from(&pk, Some(c)));
            }
        }
    }
    Obs { reads, lists, partitions: db.partition_keys() }
}

/// Describe the first difference between two observations (same enumeration order as `observe`).
fn diff(ks: &KeySet, a: &Obs, b: &Obs, an: &str, bn: &str) -> Option<(String, String)> {
    if a.partitions != b.partitions {
        let show = |v: &Vec<PKey>| v.iter().map(|(n, p)| format!("{}/{}", mc_core::hex(n), p)).collect::<Vec<_>>().join(",");
        return Some(("partition-set".into(), format!("list_partition_keys: {an} [{}] vs {bn} [{}]", show(&a.partitions), show(&b.partitions))));
    }
    let mut ri = 0;
    let mut li = 0;
    for n in ks.nodes.iter().chain(std::iter::once(&extra_node())) {
        for p in &ks.parts {
            for k in ks.sorts.iter().chain(std::iter::once(&ks.absent_sort)) {
                if a.reads[ri] != b.reads[ri] {
                    return Some(("read".into(), format!("read {}/{} key {}: {an} {} vs {bn} {}", mc_core::hex(n), p, mc_core::hex(k), show_opt(&a.reads[ri]), show_opt(&b.reads[ri]))));
                }
                ri += 1;
            }
            if a.lists[li] != b.lists[li] {
                return Some(("list-from-start".into(), format!("listing {}/{} from start: {an} {} vs {bn} {}", mc_core::hex(n), p, show_list(&a.lists[li]), show_list(&b.lists[li]))));
            }
            li += 1;
            for c in &ks.cursors {
                if a.lists[li] != b.lists[li] {
                    return Some((
                        "list-from-cursor".into(),
                        format!("listing {}/{} from cursor {}: {an} {} vs {bn} {}", mc_core::hex(n), p, mc_core::hex(c), show_list(&a.lists[li]), show_list(&b.lists[li])),
                    ));
                }
                li += 1;
            }
        }
    }
    None
}

static MODEL_MISMATCH: AtomicU64 = AtomicU64::new(0);
static STORE_OPENS: AtomicU64 = AtomicU64::new(0);
static DIR_COUNTER: AtomicU64 = AtomicU64::new(0);
static TRANSFER_COMMITS: AtomicU64 = AtomicU64::new(0);
static COMMITS: AtomicU64 = AtomicU64::new(0);

/// One long-lived set of real stores receiving one long history.
struct Session {
    mem: InMemorySubstateDatabase,
    rocks: RocksdbSubstateStore,
    merkle: Option<RocksDBWithMerkleTreeSubstateStore>,
    model: RefDb,
    trace: Vec<Commit>,
    _dirs: Vec<DirGuard>,
}

impl Session {
    fn new(ctx: &Ctx, ks: &KeySet) -> Session {
        let n = DIR_COUNTER.fetch_add(1, Ordering::Relaxed);
        let d1 = ctx.scratch_dir(&format!("{}-{}-rocks", ks.name, n));
        let rocks = RocksdbSubstateStore::standard(d1.clone());
        let mut dirs = vec![DirGuard(d1)];
        STORE_OPENS.fetch_add(1, Ordering::Relaxed);
        let merkle = if ks.with_merkle {
            let d2 = ctx.scratch_dir(&format!("{}-{}-merkle", ks.name, n));
            let m = RocksDBWithMerkleTreeSubstateStore::standard(d2.clone());
            dirs.push(DirGuard(d2));
            STORE_OPENS.fetch_add(1, Ordering::Relaxed);
            Some(m)
        } else {
            None
        };
        Session { mem: InMemorySubstateDatabase::standard(), rocks, merkle, model: RefDb::default(), trace: vec![], _dirs: dirs }
    }

    /// Commit to every store, then compare everything the statement names pairwise.
    fn commit_and_compare(&mut self, ks: &KeySet, c: &Commit, compare: bool) -> Result<(), (String, String)> {
        let du = c.to_database_updates();
        self.trace.push(c.clone());
        self.model.apply(c);
        self.mem.commit(&du);
        self.rocks.commit(&du);
        if let Some(m) = self.merkle.as_mut() {
            m.commit(&du);
        }
        if !compare {
            return Ok(());
        }
        COMMITS.fetch_add(1, Ordering::Relaxed);
        let om = observe(ks, &self.mem);
        let or = observe(ks, &self.rocks);
        if let Some((k, w)) = diff(ks, &om, &or, "in-memory", "rocksdb") {
            return Err((format!("memory-vs-rocksdb:{k}"), w));
        }
        if let Some(m) = self.merkle.as_ref() {
            let ot = observe(ks, m);
            if let Some((k, w)) = diff(ks, &om, &ot, "in-memory", "rocksdb-with-merkle-tree") {
                return Err((format!("memory-vs-merkle:{k}"), w));
            }
            if let Some((k, w)) = diff(ks, &or, &ot, "rocksdb", "rocksdb-with-merkle-tree") {
                return Err((format!("rocksdb-vs-merkle:{k}"), w));
            }
        }
        if om != observe_model(ks, &self.model) {
            MODEL_MISMATCH.fetch_add(1, Ordering::Relaxed);
        }
        Ok(())
    }

    /// Store contents as the state identity (read from the in-memory store after all stores agreed).
    fn content(&self) -> RefDb {
        real_contents(&self.mem)
    }
}

/// The commit that turns content `from` into content `to`: a reset of every partition that differs.
fn transfer(from: &RefDb, to: &RefDb) -> Option<Commit> {
    let mut atoms = vec![];
    let mut keys: Vec<&PKey> = from.parts.keys().chain(to.parts.keys()).collect();
    keys.sort();
    keys.dedup();
    for p in keys {
        if from.parts.get(p) != to.parts.get(p) {
            let vals: Vec<(Sort, Val)> = to.parts.get(p).map(|m| m.iter().map(|(k, v)| (k.clone(), v.clone())).collect()).unwrap_or_default();
            atoms.push(Atom::new(&p.0, p.1, PU::Reset(vals)));
        }
    }
    if atoms.is_empty() {
        None
    } else {
        Some(Commit(atoms))
    }
}

fn class_of(c: &Commit, before: &RefDb, after: &RefDb) -> String {
    let pb = before.partition_keys();
    let pa = after.partition_keys();
    let kind = if c.0.len() > 1 {
        "multi"
    } else {
        match &c.0[0].pu {
            PU::Delta(v) if v[0].1.is_some() => "set",
            PU::Delta(_) => "delete",
            PU::Reset(_) => "reset",
        }
    };
    let effect = if before == after {
        "noop"
    } else if pa.len() > pb.len() {
        "partition-appears"
    } else if pa.len() < pb.len() {
        "partition-disappears"
    } else if pa != pb {
        "partitions-swap"
    } else {
        "substates-change"
    };
    format!("{kind}:{effect}")
}

struct Found {
    key: String,
    what: String,
    history: Vec<Commit>,
}

type StepResult = Result<(String, RefDb), Found>;

/// Run `f` on the session, turning panics of the stores into findings.
fn guarded(session: &mut Session, ks: &KeySet, c: &Commit, compare: bool) -> Result<(), (String, String)> {
    match mc_core::catch(|| session.commit_and_compare(ks, c, compare)) {
        Ok(r) => r,
        Err(p) => Err((format!("panic@{}", mc_core::last_panic_location()), format!("a store panicked: {p}"))),
    }
}

/// Re-run a short history on fresh stores; Some(finding) if it reproduces there.
fn confirm_fresh(ctx: &Ctx, ks: &KeySet, history: &[Commit]) -> Option<(String, String)> {
    let mut s = Session::new(ctx, ks);
    for c in history {
        if let Err(e) = guarded(&mut s, ks, c, true) {
            return Some(e);
        }
    }
    None
}

/// Fixed (independent of the thread count, so that sessions are the same in every run).
const CHUNKS: usize = 16;

struct Search<'a> {
    ctx: &'a Ctx,
    ks: KeySet,
    commits: Vec<Commit>,
    /// session k serves chunk k of every layer
    slots: Vec<std::sync::Mutex<Option<Session>>>,
}

impl<'a> Search<'a> {
    fn expand_chunk(&self, slot: usize, chunk: &[(Vec<u16>, RefDb)], deadline_s: f64) -> (Vec<StepResult>, bool) {
        let ks = &self.ks;
        let mut out = vec![];
        let mut guard = self.slots[slot].lock().unwrap();
        let mut session = guard.take().unwrap_or_else(|| Session::new(self.ctx, ks));
        for (hist, content) in chunk {
            for (oi, op) in self.commits.iter().enumerate() {
                if self.ctx.elapsed_s() > deadline_s {
                    *guard = Some(session);
                    return (out, true);
                }
                let mut r: Result<(), (String, String)> = Ok(());
                if let Some(t) = transfer(&session.content(), content) {
                    TRANSFER_COMMITS.fetch_add(1, Ordering::Relaxed);
                    // positioning commit: part of the session's history; compared together with the next commit
                    r = guarded(&mut session, ks, &t, false);
                }
                if r.is_ok() {
                    r = guarded(&mut session, ks, op, true);
                }
                match r {
                    Ok(()) => {
                        let after = session.content();
                        out.push(Ok((class_of(op, content, &after), after)));
                    }
                    Err((k, w)) => {
                        let mut short: Vec<Commit> = hist.iter().map(|i| self.commits[*i as usize].clone()).collect();
                        short.push(op.clone());
                        let f = match confirm_fresh(self.ctx, ks, &short) {
                            Some((k2, w2)) => Found { key: k2, what: w2, history: short },
                            None => Found { key: format!("{k}:only-after-longer-history"), what: format!("{w} (not reproduced by the {}-commit breadth-first history on fresh stores; the history given is the whole session)", hist.len() + 1), history: session.trace.clone() },
                        };
                        out.push(Err(f));
                        session = Session::new(self.ctx, ks); // do not let one finding contaminate the rest
                    }
                }
                let _ = oi;
            }
        }
        *guard = Some(session);
        (out, false)
    }

    fn run(&self, max_depth: usize, wall_cap_s: f64) -> BfsStats {
        let mut stats = BfsStats::default();
        let deadline = self.ctx.elapsed_s() + wall_cap_s;
        let mut seen: std::collections::HashSet<Vec<u8>> = std::collections::HashSet::new();
        seen.insert(RefDb::default().canonical_bytes());
        stats.states = 1;
        stats.per_depth_states.push(1);
        stats.alphabet_max = self.commits.len();
        let mut frontier: Vec<(Vec<u16>, RefDb)> = vec![(vec![], RefDb::default())];
        for depth in 0..max_depth {
            if frontier.is_empty() {
                stats.depth_completed = max_depth;
                break;
            }
            if self.ctx.elapsed_s() > deadline {
                stats.capped = true;
                break;
            }
            let n_chunks = CHUNKS.min(frontier.len());
            let per = (frontier.len() + n_chunks - 1) / n_chunks;
            let chunks: Vec<(usize, &[(Vec<u16>, RefDb)])> = frontier.chunks(per).enumerate().collect();
            let results = par_map(self.ctx.threads, &chunks, |(slot, chunk)| self.expand_chunk(*slot, chunk, deadline));
            let mut local = mc_core::Local::new();
            let mut next = vec![];
            let mut new_states = 0;
            let mut cut = false;
            for ((_, chunk), (res, capped)) in chunks.iter().zip(results.into_iter()) {
                cut |= capped;
                let mut it = res.into_iter();
                'chunk: for (hist, _) in chunk.iter() {
                    for oi in 0..self.commits.len() {
                        let Some(r) = it.next() else { break 'chunk };
                        stats.transitions += 1;
                        local.eval();
                        match r {
                            Ok((class, content)) => {
                                local.class(&class);
                                if seen.insert(content.canonical_bytes()) {
                                    new_states += 1;
                                    let mut h = hist.clone();
                                    h.push(oi as u16);
                                    local.sample(|| json!({"base": self.ks.name, "history": h.iter().map(|i| self.commits[*i as usize].to_json().to_string()).collect::<Vec<_>>(), "last_observation": class}));
                                    next.push((h, content));
                                }
                            }
                            Err(f) => {
                                local.violation(f.key, f.what, json!({"base": self.ks.name, "history": f.history.iter().map(|c| c.to_json().to_string()).collect::<Vec<_>>()}));
                            }
                        }
                    }
                }
            }
            self.ctx.merge(local);
            stats.states += new_states;
            stats.per_depth_states.push(new_states);
            stats.max_depth = depth + 1;
            if cut {
                stats.capped = true;
                break;
            }
            stats.depth_completed = depth + 1;
            frontier = next;
        }
        stats
    }
}

pub fn run(ctx: Ctx) -> ! {
    mc_core::install_quiet_panic_hook();
    if let Some(case) = ctx.read_replay_case() {
        replay(ctx, case);
    }
    // (key set, systematic alphabet?, depth)
    let plan: Vec<(KeySet, bool, usize)> =
        if ctx.quick() { vec![(legal(), false, 4), (wild(), false, 4), (legal(), true, 2), (wild(), true, 3)] } else { vec![(legal(), false, 12), (wild(), false, 12), (legal(), true, 4), (wild(), true, 4)] };
    let mut total = BfsStats::default();
    let mut exhaustive = true;
    let mut searches = serde_json::Map::new();
    for (ks, full, depth) in plan.iter() {
        let cs = commits(ks, *full);
        let search = Search { ctx: &ctx, ks: ks.clone(), commits: cs, slots: (0..CHUNKS).map(|_| std::sync::Mutex::new(None)).collect() };
        let s = search.run(*depth, ctx.pick(14.0, 280.0));
        if s.capped {
            exhaustive = false;
        }
        searches.insert(
            format!("{}:{}:depth{}", ks.name, if *full { "systematic-alphabet" } else { "core-alphabet" }, depth),
            json!({"alphabet": search.commits.len(), "stores": if ks.with_merkle { 3 } else { 2 }, "states": s.states, "transitions": s.transitions, "depth_completed": s.depth_completed, "capped": s.capped, "per_depth_new_states": s.per_depth_states}),
        );
        total.add(&s);
    }
    let mm = MODEL_MISMATCH.load(Ordering::Relaxed);
    if mm > 0 {
        ctx.info("all-stores-agree-but-differ-from-plain-map-model", mm);
    }
    let mut cov = total.coverage();
    cov.insert("searches".into(), serde_json::Value::Object(searches));
    cov.insert("store_instances_opened".into(), json!(STORE_OPENS.load(Ordering::Relaxed)));
    cov.insert("commits_compared".into(), json!(COMMITS.load(Ordering::Relaxed)));
    cov.insert("of_which_transfer_commits".into(), json!(TRANSFER_COMMITS.load(Ordering::Relaxed)));
    let nontrivial = total.states;
    ctx.finish(
        Level::ModelChecking,
        "a state is a distinct store content (read back from the in-memory store after all stores agreed); a transition is one commit applied to all stores of a session positioned at the source content, followed by the pairwise comparison of all reads, all listings (start + every cursor) of 12 partitions and the partition set; non-trivial = distinct store contents reached",
        nontrivial,
        exhaustive,
        cov,
        &[
            "the Merkle-tree store only takes part with equal-length keys per tier (documented precondition of its tree); variable-length and prefix-related keys are compared between the in-memory and the plain RocksDB store",
            "dedup by content: the stores are treated as functions of their logical content once they agree on every observation including full listings (RocksDB tombstone layout is RocksDB's responsibility)",
            "a frontier content is reached on a long-lived session by one reset commit instead of by replaying its history on fresh stores (RocksDB open costs ~0.2 s here); findings are re-run on fresh stores",
            "sizes: node keys <= 2 bytes, sort keys <= 2 bytes, values <= 2 bytes",
        ],
    )
}

fn replay(ctx: Ctx, case: serde_json::Value) -> ! {
    let hist = history_from_case(&case);
    let tag = case.get("base").and_then(|b| b.as_str()).unwrap_or("tree-legal").to_string();
    let ks = if tag == "wild" { wild() } else { legal() };
    {
        let mut s = Session::new(&ctx, &ks);
        for (i, c) in hist.iter().enumerate() {
            match guarded(&mut s, &ks, c, true) {
                Ok(()) => println!("step {i} {:?}: all stores agree; content {}", c, s.content().to_json()),
                Err((k, w)) => {
                    println!("step {i} {:?}: VIOLATION {k}: {w}", c);
                    ctx.violation(k, w, case.clone());
                    break;
                }
            }
        }
    }
    ctx.finish(Level::ModelChecking, "replay", 0, false, serde_json::Map::new(), &[])
}
