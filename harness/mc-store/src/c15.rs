//! C15 — all substate store implementations are observationally equivalent.
//!
//! The same commit history is applied to fresh instances of the real stores, and after every commit all
//! observations the statement names are compared pairwise: every point read, the sorted listing of
//! every partition from the start and from every cursor, and the set of partitions.
//!
//! Two searches (both breadth-first by replay: RocksDB cannot be cloned, so every transition opens fresh
//! stores in scratch directories and replays its history):
//!  * "tree-legal": InMemory + RocksDB + RocksDB-with-Merkle-tree, keys of equal length per tier (the
//!    Merkle store's tree documents equal-length leaf keys as a precondition; outside it its behaviour is
//!    unspecified, so it only takes part here). 0xFF runs, partition 255 and adjacent node keys exercise
//!    `delete_range_cf` bounds and the partition-end `take_while`.
//!  * "wild": InMemory + RocksDB only, with variable-length node keys ([1], [1,0], [0xFF]: length-prefix
//!    collisions), the empty sort key and prefix-related sort keys.
use crate::alphabet::*;
use mc_core::{bfs, BfsStats, Ctx, Level, Machine};
use radix_substate_store_impls::memory_db::InMemorySubstateDatabase;
use radix_substate_store_impls::rocks_db::RocksdbSubstateStore;
use radix_substate_store_impls::rocks_db_with_merkle_tree::RocksDBWithMerkleTreeSubstateStore;
use radix_substate_store_interface::interface::*;
use serde_json::json;
use std::path::PathBuf;
use std::sync::atomic::{AtomicU64, Ordering};

#[derive(Clone)]
struct KeySet {
    name: &'static str,
    nodes: Vec<NodeKey>,
    parts: Vec<u8>,
    sorts: Vec<Sort>,
    cursors: Vec<Sort>,
    absent_sort: Sort,
    with_merkle: bool,
}

fn legal() -> KeySet {
    KeySet {
        name: "tree-legal",
        nodes: vec![vec![1, 0], vec![1, 1], vec![0xFF, 0xFF]],
        parts: vec![0, 1, 255],
        sorts: vec![vec![0, 0], vec![0, 0xFF], vec![0xFF, 0], vec![0xFF, 0xFF]],
        cursors: vec![vec![], vec![0, 0], vec![0, 1], vec![0, 0xFF], vec![0x80], vec![0xFF, 0], vec![0xFF, 0x80], vec![0xFF, 0xFF], vec![0xFF, 0xFF, 0]],
        absent_sort: vec![0x7F, 0x7F],
        with_merkle: true,
    }
}

fn wild() -> KeySet {
    KeySet {
        name: "wild",
        nodes: vec![vec![1], vec![1, 0], vec![0xFF]],
        parts: vec![0, 1, 255],
        sorts: vec![vec![], vec![0], vec![0xFF], vec![0xFF, 0xFF]],
        cursors: vec![vec![], vec![0], vec![0, 0], vec![0x80], vec![0xFF], vec![0xFF, 0], vec![0xFF, 0xFF], vec![0xFF, 0xFF, 0]],
        absent_sort: vec![0x7F],
        with_merkle: false,
    }
}

fn commits(ks: &KeySet, full: bool) -> Vec<Commit> {
    let v1 = vec![0x01u8];
    let v2 = vec![0x02u8, 0xFF];
    let (n0, n1, n2) = (&ks.nodes[0], &ks.nodes[1], &ks.nodes[2]);
    let s = &ks.sorts;
    let set = |k: &Sort, v: &Val| PU::Delta(vec![(k.clone(), Some(v.clone()))]);
    let del = |k: &Sort| PU::Delta(vec![(k.clone(), None)]);
    let mut out = vec![];
    if !full {
        let (pa, pb, pc, pd) = ((n0, 0u8), (n0, 255u8), (n1, 0u8), (n2, 255u8));
        let one = |p: (&NodeKey, u8), pu: PU| Commit::one(Atom::new(p.0, p.1, pu));
        out.push(one(pa, set(&s[0], &v1)));
        out.push(one(pa, set(&s[3], &v1)));
        out.push(one(pb, set(&s[2], &v1)));
        out.push(one(pb, set(&s[3], &v2)));
        out.push(one(pc, set(&s[0], &v2)));
        out.push(one(pd, set(&s[1], &v1)));
        out.push(one(pa, del(&s[0])));
        out.push(one(pb, del(&s[3])));
        out.push(one(pc, del(&s[0])));
        out.push(one(pa, PU::Reset(vec![])));
        out.push(one(pb, PU::Reset(vec![(s[1].clone(), v1.clone())])));
        out.push(one(pc, PU::Reset(vec![])));
        out.push(Commit(vec![Atom::new(n0, 0, PU::Delta(vec![(s[2].clone(), Some(v2.clone())), (s[3].clone(), None)])), Atom::new(n0, 255, PU::Reset(vec![]))]));
        out.push(Commit(vec![Atom::new(n2, 255, PU::Reset(vec![(s[0].clone(), v1.clone()), (s[3].clone(), v2.clone())])), Atom::new(n1, 0, set(&s[3], &v1))]));
    } else {
        for (n, p) in [(n0, 0u8), (n0, 1), (n0, 255), (n1, 0), (n2, 255)] {
            let mut push = |pu: PU| out.push(Commit::one(Atom::new(n, p, pu)));
            push(set(&s[0], &v1));
            push(set(&s[2], &v1));
            push(set(&s[3], &v2));
            push(del(&s[0]));
            push(del(&s[3]));
            push(PU::Reset(vec![]));
            push(PU::Reset(vec![(s[1].clone(), v1.clone())]));
        }
        out.push(Commit(vec![Atom::new(n0, 0, PU::Delta(vec![(s[2].clone(), Some(v2.clone())), (s[3].clone(), None)])), Atom::new(n0, 255, PU::Reset(vec![]))]));
        out.push(Commit(vec![Atom::new(n2, 255, PU::Reset(vec![(s[0].clone(), v1.clone()), (s[3].clone(), v2.clone())])), Atom::new(n1, 0, set(&s[3], &v1))]));
    }
    out
}

/// Removes its directory when dropped (declared after the store it belongs to, so dropped after it).
struct DirGuard(PathBuf);
impl Drop for DirGuard {
    fn drop(&mut self) {
        let _ = std::fs::remove_dir_all(&self.0);
    }
}

struct St {
    mem: InMemorySubstateDatabase,
    rocks: RocksdbSubstateStore,
    merkle: Option<RocksDBWithMerkleTreeSubstateStore>,
    model: RefDb,
    _dirs: Vec<DirGuard>,
}

struct M15<'a> {
    ctx: &'a Ctx,
    ks: KeySet,
    commits: Vec<Commit>,
    updates: Vec<DatabaseUpdates>,
    offset: usize,
    counter: AtomicU64,
}

/// Everything the statement names, read from one store.
#[derive(PartialEq, Eq)]
struct Obs {
    reads: Vec<Option<Val>>,
    lists: Vec<Vec<(Sort, Val)>>,
    partitions: Vec<PKey>,
}

fn observe<D: SubstateDatabase + ListableSubstateDatabase>(ks: &KeySet, db: &D) -> Obs {
    let mut reads = vec![];
    let mut lists = vec![];
    for n in ks.nodes.iter().chain(std::iter::once(&vec![0x55u8, 0x55])) {
        for p in &ks.parts {
            let pk = (n.clone(), *p);
            for k in ks.sorts.iter().chain(std::iter::once(&ks.absent_sort)) {
                reads.push(real_get(db, &pk, k));
            }
            lists.push(real_list(db, &pk, None));
            for c in &ks.cursors {
                lists.push(real_list(db, &pk, Some(c)));
            }
        }
    }
    Obs { reads, lists, partitions: real_partition_keys(db) }
}

fn observe_model(ks: &KeySet, db: &RefDb) -> Obs {
    let mut reads = vec![];
    let mut lists = vec![];
    for n in ks.nodes.iter().chain(std::iter::once(&vec![0x55u8, 0x55])) {
        for p in &ks.parts {
            let pk = (n.clone(), *p);
            for k in ks.sorts.iter().chain(std::iter::once(&ks.absent_sort)) {
                reads.push(db.get(&pk, k));
            }
            lists.push(db.list_from(&pk, None));
            for c in &ks.cursors {
                lists.push(db.list_from(&pk, Some(c)));
            }
        }
    }
    Obs { reads, lists, partitions: db.partition_keys() }
}

/// Describe the first difference between two observations (same enumeration order as `observe`).
fn diff(ks: &KeySet, a: &Obs, b: &Obs, an: &str, bn: &str) -> Option<(String, String)> {
    if a.partitions != b.partitions {
        let show = |v: &Vec<PKey>| v.iter().map(|(n, p)| format!("{}/{}", mc_core::hex(n), p)).collect::<Vec<_>>().join(",");
        return Some(("partition-set".into(), format!("list_partition_keys: {an} [{}] vs {bn} [{}]", show(&a.partitions), show(&b.partitions))));
    }
    let mut ri = 0;
    let mut li = 0;
    for n in ks.nodes.iter().chain(std::iter::once(&vec![0x55u8, 0x55])) {
        for p in &ks.parts {
            for k in ks.sorts.iter().chain(std::iter::once(&ks.absent_sort)) {
                if a.reads[ri] != b.reads[ri] {
                    return Some(("read".into(), format!("read {}/{} key {}: {an} {} vs {bn} {}", mc_core::hex(n), p, mc_core::hex(k), show_opt(&a.reads[ri]), show_opt(&b.reads[ri]))));
                }
                ri += 1;
            }
            if a.lists[li] != b.lists[li] {
                return Some(("list-from-start".into(), format!("listing {}/{} from start: {an} {} vs {bn} {}", mc_core::hex(n), p, show_list(&a.lists[li]), show_list(&b.lists[li]))));
            }
            li += 1;
            for c in &ks.cursors {
                if a.lists[li] != b.lists[li] {
                    return Some((
                        "list-from-cursor".into(),
                        format!("listing {}/{} from cursor {}: {an} {} vs {bn} {}", mc_core::hex(n), p, mc_core::hex(c), show_list(&a.lists[li]), show_list(&b.lists[li])),
                    ));
                }
                li += 1;
            }
        }
    }
    None
}

static MODEL_MISMATCH: AtomicU64 = AtomicU64::new(0);
static STORE_OPENS: AtomicU64 = AtomicU64::new(0);

impl<'a> Machine for M15<'a> {
    type Op = OpIx;
    type St = St;

    fn init(&self) -> St {
        let n = self.counter.fetch_add(1, Ordering::Relaxed);
        let d1 = self.ctx.scratch_dir(&format!("{}-{}-rocks", self.ks.name, n));
        let rocks = RocksdbSubstateStore::standard(d1.clone());
        let mut dirs = vec![DirGuard(d1)];
        STORE_OPENS.fetch_add(1, Ordering::Relaxed);
        let merkle = if self.ks.with_merkle {
            let d2 = self.ctx.scratch_dir(&format!("{}-{}-merkle", self.ks.name, n));
            let m = RocksDBWithMerkleTreeSubstateStore::standard(d2.clone());
            dirs.push(DirGuard(d2));
            STORE_OPENS.fetch_add(1, Ordering::Relaxed);
            Some(m)
        } else {
            None
        };
        St { mem: InMemorySubstateDatabase::standard(), rocks, merkle, model: RefDb::default(), _dirs: dirs }
    }

    fn ops(&self, _st: &St, _depth: usize) -> Vec<OpIx> {
        (0..self.commits.len()).map(|i| OpIx((i + self.offset) as u16)).collect()
    }

    fn step(&self, st: &mut St, op: &OpIx) -> Result<String, (String, String)> {
        let i = op.0 as usize - self.offset;
        let du = &self.updates[i];
        let before = st.model.clone();
        st.model.apply(&self.commits[i]);
        st.mem.commit(du);
        st.rocks.commit(du);
        if let Some(m) = st.merkle.as_mut() {
            m.commit(du);
        }
        let om = observe(&self.ks, &st.mem);
        let or = observe(&self.ks, &st.rocks);
        if let Some((k, w)) = diff(&self.ks, &om, &or, "in-memory", "rocksdb") {
            return Err((format!("memory-vs-rocksdb:{k}"), w));
        }
        if let Some(m) = st.merkle.as_ref() {
            let ot = observe(&self.ks, m);
            if let Some((k, w)) = diff(&self.ks, &om, &ot, "in-memory", "rocksdb-with-merkle-tree") {
                return Err((format!("memory-vs-merkle:{k}"), w));
            }
            if let Some((k, w)) = diff(&self.ks, &or, &ot, "rocksdb", "rocksdb-with-merkle-tree") {
                return Err((format!("rocksdb-vs-merkle:{k}"), w));
            }
        }
        if om != observe_model(&self.ks, &st.model) {
            MODEL_MISMATCH.fetch_add(1, Ordering::Relaxed);
        }
        // outcome class: what the commit did to the set of partitions / substates
        let pb = before.partition_keys();
        let pa = st.model.partition_keys();
        let kind = if self.commits[i].0.len() > 1 {
            "multi"
        } else {
            match &self.commits[i].0[0].pu {
                PU::Delta(v) if v[0].1.is_some() => "set",
                PU::Delta(_) => "delete",
                PU::Reset(_) => "reset",
            }
        };
        let effect = if before == st.model {
            "noop"
        } else if pa.len() > pb.len() {
            "partition-appears"
        } else if pa.len() < pb.len() {
            "partition-disappears"
        } else if pa != pb {
            "partitions-swap"
        } else {
            "substates-change"
        };
        Ok(format!("{kind}:{effect}"))
    }

    fn fingerprint(&self, st: &St) -> Vec<u8> {
        // In-memory store contents (all stores just agreed on every observation incl. full listings).
        mc_core::fp128(&real_contents(&st.mem).canonical_bytes())
    }
}

pub fn run(ctx: Ctx) -> ! {
    if let Some(case) = ctx.read_replay_case() {
        replay(ctx, case);
    }
    // (key set, full alphabet?, depth)
    let plan: Vec<(KeySet, bool, usize)> =
        if ctx.quick() { vec![(legal(), false, 3), (wild(), false, 3)] } else { vec![(legal(), false, 4), (wild(), false, 4), (legal(), true, 3), (wild(), true, 3)] };
    let mut table = vec![];
    let mut offsets = vec![];
    for (ks, full, _) in &plan {
        offsets.push(table.len());
        table.extend(commits(ks, *full));
    }
    install_table(table);
    let mut total = BfsStats::default();
    let mut exhaustive = true;
    let mut searches = serde_json::Map::new();
    for (pi, (ks, full, depth)) in plan.iter().enumerate() {
        let cs = commits(ks, *full);
        let updates = cs.iter().map(|c| c.to_database_updates()).collect();
        let m = M15 { ctx: &ctx, ks: ks.clone(), commits: cs, updates, offset: offsets[pi], counter: AtomicU64::new((pi as u64) << 40) };
        let s = bfs(&ctx, &m, ks.name, *depth, 5_000_000, ctx.pick(40.0, 500.0));
        if s.capped {
            exhaustive = false;
        }
        searches.insert(
            format!("{}:{}:depth{}", ks.name, if *full { "systematic-alphabet" } else { "core-alphabet" }, depth),
            json!({"alphabet": m.commits.len(), "stores": if ks.with_merkle { 3 } else { 2 }, "states": s.states, "transitions": s.transitions, "depth_completed": s.depth_completed, "capped": s.capped, "per_depth_new_states": s.per_depth_states}),
        );
        total.add(&s);
    }
    let mm = MODEL_MISMATCH.load(Ordering::Relaxed);
    if mm > 0 {
        ctx.info("all-stores-agree-but-differ-from-plain-map-model", mm);
    }
    let mut cov = total.coverage();
    cov.insert("searches".into(), serde_json::Value::Object(searches));
    cov.insert("rocksdb_instances_opened".into(), json!(STORE_OPENS.load(Ordering::Relaxed)));
    let nontrivial = total.states;
    ctx.finish(
        Level::ModelChecking,
        "a state is a distinct store content (read back from the in-memory store after all stores agreed); a transition opens fresh stores, replays the history plus one commit and compares all reads, all listings (start + every cursor) of 12 partitions and the partition set pairwise; non-trivial = distinct store contents reached",
        nontrivial,
        exhaustive,
        cov,
        &[
            "the Merkle-tree store only takes part with equal-length keys per tier (documented precondition of its tree); variable-length and prefix-related keys are compared between the in-memory and the plain RocksDB store",
            "dedup by content: the stores are treated as functions of their logical content once they agree on every observation including full listings (RocksDB tombstone layout is RocksDB's responsibility)",
            "sizes: node keys <= 2 bytes, sort keys <= 2 bytes, values <= 2 bytes",
        ],
    )
}

fn replay(ctx: Ctx, case: serde_json::Value) -> ! {
    let hist = history_from_case(&case);
    let tag = case.get("base").and_then(|b| b.as_str()).unwrap_or("tree-legal").to_string();
    let ks = if tag == "wild" { wild() } else { legal() };
    install_table(hist.clone());
    let updates = hist.iter().map(|c| c.to_database_updates()).collect();
    {
        let m = M15 { ctx: &ctx, ks, commits: hist.clone(), updates, offset: 0, counter: AtomicU64::new(0) };
        let mut st = m.init();
        for i in 0..hist.len() {
            match mc_core::catch(|| m.step(&mut st, &OpIx(i as u16))) {
                Ok(Ok(c)) => println!("step {i} {:?}: ok ({c})", hist[i]),
                Ok(Err((k, w))) => {
                    println!("step {i} {:?}: VIOLATION {k}: {w}", hist[i]);
                    ctx.violation(k, w, case.clone());
                    break;
                }
                Err(p) => {
                    println!("step {i} {:?}: PANIC {p}", hist[i]);
                    ctx.violation(format!("panic@{}", mc_core::last_panic_location()), p, case.clone());
                    break;
                }
            }
        }
    }
    ctx.finish(Level::ModelChecking, "replay", 0, false, serde_json::Map::new(), &[])
}
