//! C19 — a crash during a Merkle-store commit leaves a consistent store.
//!
//! Fault enumeration on the real `RocksDBWithMerkleTreeSubstateStore`: every history of <= L committed
//! batches from a 10-batch alphabet, pruning on and off, followed by one victim batch. The victim is
//! first committed un-faulted while the source hook counts its physical writes W; then, for every
//! k in 1..=W, the history is rebuilt in a fresh directory and the commit is stopped right before its
//! k-th physical write (hook panics -> unwind -> store dropped -> directory reopened with `standard()`):
//! every prefix of the commit's write sequence.
//! Oracle on the reopened store: (version, substates) is the pre-commit or the post-commit pair, the
//! recorded root is the independent commitment (refmerkle) of the substates held, and the tree read at
//! the recorded version lists exactly the hashes of those substates. Unreachable leftover tree nodes are
//! allowed (the statement speaks of version, root and substates only).
use crate::alphabet::*;
use crate::c17::{listing_of, show_listing};
use crate::refmerkle;
use crate::treekeys;
use mc_core::{par_map, Ctx, Level, Local};
use radix_common::prelude::Hash;
use radix_substate_store_impls::rocks_db_with_merkle_tree::{Options, RocksDBWithMerkleTreeSubstateStore};
use radix_substate_store_impls::verif_hooks;
use radix_substate_store_interface::interface::*;
use serde_json::{json, Map, Value};
use std::collections::BTreeMap;
use std::path::PathBuf;
use std::sync::atomic::{AtomicU64, Ordering};

fn batches() -> Vec<Commit> {
    let e = treekeys::entities();
    let p = treekeys::partitions();
    let k = treekeys::sort_keys();
    let v1 = treekeys::V1.to_vec();
    let v2 = treekeys::V2.to_vec();
    let set = |kk: &Sort, v: &Val| (kk.clone(), Some(v.clone()));
    let del = |kk: &Sort| (kk.clone(), None);
    vec![
        // 0: one substate put
        Commit(vec![Atom::new(&e[0], p[0], PU::Delta(vec![set(&k[0], &v1)]))]),
        // 1: two puts in one partition (overwrite + new key sharing 15 bits)
        Commit(vec![Atom::new(&e[0], p[0], PU::Delta(vec![set(&k[0], &v2), set(&k[1], &v1)]))]),
        // 2: one delete (present or absent)
        Commit(vec![Atom::new(&e[0], p[0], PU::Delta(vec![del(&k[0])]))]),
        // 3: two deletes (may empty the partition / entity / state)
        Commit(vec![Atom::new(&e[0], p[0], PU::Delta(vec![del(&k[0]), del(&k[1])]))]),
        // 4: reset without new values
        Commit(vec![Atom::new(&e[0], p[0], PU::Reset(vec![]))]),
        // 5: reset with new values
        Commit(vec![Atom::new(&e[0], p[0], PU::Reset(vec![(k[2].clone(), v1.clone()), (k[3].clone(), v2.clone())]))]),
        // 6: two partitions of one entity
        Commit(vec![Atom::new(&e[0], p[0], PU::Delta(vec![set(&k[3], &v1)])), Atom::new(&e[0], p[1], PU::Delta(vec![set(&k[0], &v1)]))]),
        // 7: two entities, delta + reset
        Commit(vec![Atom::new(&e[1], p[0], PU::Delta(vec![set(&k[0], &v1)])), Atom::new(&e[2], p[2], PU::Reset(vec![(k[1].clone(), v2.clone())]))]),
        // 8: an entity whose key shares 30 bits with entity 0 (restructures the entity tier)
        Commit(vec![Atom::new(&e[1], p[0], PU::Delta(vec![set(&k[1], &v2)]))]),
        // 9: wipe entity 0 by resets
        Commit(vec![Atom::new(&e[0], p[0], PU::Reset(vec![])), Atom::new(&e[0], p[1], PU::Reset(vec![]))]),
    ]
}

#[derive(Clone)]
struct Case {
    pruning: bool,
    prefix: Vec<Commit>,
    victim: Commit,
}

impl Case {
    fn to_json(&self, stop_before: Option<(u64, &str)>) -> Value {
        let mut v = json!({"pruning": self.pruning, "prefix": self.prefix.iter().map(|c| c.to_json()).collect::<Vec<_>>(), "victim": self.victim.to_json()});
        if let Some((k, label)) = stop_before {
            v["stop_before_write"] = json!(k);
            v["write_label"] = json!(label);
        }
        v
    }
}

struct DirGuard(PathBuf);
impl Drop for DirGuard {
    fn drop(&mut self) {
        let _ = std::fs::remove_dir_all(&self.0);
    }
}

static DIR_COUNTER: AtomicU64 = AtomicU64::new(0);

fn open(dir: &PathBuf, pruning: bool) -> RocksDBWithMerkleTreeSubstateStore {
    let mut options = Options::default();
    options.create_if_missing(true);
    options.create_missing_column_families(true);
    RocksDBWithMerkleTreeSubstateStore::with_options(&options, dir.clone(), pruning)
}

/// Fresh store holding the committed prefix.
fn build(ctx: &Ctx, case: &Case) -> (RocksDBWithMerkleTreeSubstateStore, DirGuard) {
    let n = DIR_COUNTER.fetch_add(1, Ordering::Relaxed);
    let dir = ctx.scratch_dir(&format!("d{n}"));
    let mut store = open(&dir, case.pruning);
    for c in &case.prefix {
        store.commit(&c.to_database_updates());
    }
    verif_hooks::disarm();
    let _ = verif_hooks::take_seen();
    (store, DirGuard(dir))
}

struct Recovered {
    version: u64,
    root: Hash,
    substates: RefDb,
}

fn read_back(store: &RocksDBWithMerkleTreeSubstateStore) -> Recovered {
    Recovered { version: store.get_current_version(), root: store.get_current_root_hash(), substates: real_contents(store) }
}

/// The statement's oracle. Ok(class) or Err((key, what)).
fn judge(store: &RocksDBWithMerkleTreeSubstateStore, pre: &(u64, RefDb), post: &(u64, RefDb)) -> Result<&'static str, (String, String)> {
    let r = read_back(store);
    let which = if r.version == post.0 && r.substates == post.1 {
        "post-commit-state"
    } else if r.version == pre.0 && r.substates == pre.1 {
        "pre-commit-state"
    } else {
        let describe = |s: &RefDb| s.to_json().to_string();
        let sub = if r.substates == pre.1 {
            "the pre-commit substates"
        } else if r.substates == post.1 {
            "the post-commit substates"
        } else {
            "substates that are neither the pre- nor the post-commit set"
        };
        return Err((
            "torn-commit".into(),
            format!(
                "reopened store records version {} and holds {}: {} (pre-commit: version {} {}; post-commit: version {} {})",
                r.version,
                sub,
                describe(&r.substates),
                pre.0,
                describe(&pre.1),
                post.0,
                describe(&post.1)
            ),
        ));
    };
    let want_root = refmerkle::state_root(&r.substates);
    if r.root != want_root {
        return Err(("root-does-not-describe-substates".into(), format!("recorded root {} but the commitment of the substates held is {}", mc_core::hex(&r.root.0), mc_core::hex(&want_root.0))));
    }
    let want = refmerkle::substate_hashes(&r.substates);
    match mc_core::catch(|| listing_of(store, r.version)) {
        Ok(l) if l == want => Ok(which),
        Ok(l) => Err(("tree-does-not-describe-substates".into(), format!("tree at recorded version {} lists {} but the store holds {}", r.version, show_listing(&l), show_listing(&want)))),
        Err(p) => Err(("tree-unreadable".into(), format!("reading the tree at recorded version {} panicked: {p}", r.version))),
    }
}

struct CaseResult {
    local: Local,
    writes: usize,
    nontrivial: u64,
}

fn run_case(ctx: &Ctx, case: &Case) -> CaseResult {
    let mut local = Local::new();
    let mut pre_model = RefDb::default();
    for c in &case.prefix {
        pre_model.apply(c);
    }
    let mut post_model = pre_model.clone();
    post_model.apply(&case.victim);
    let pre = (case.prefix.len() as u64, pre_model);
    let post = (case.prefix.len() as u64 + 1, post_model);
    let du = case.victim.to_database_updates();

    // un-faulted run: count the physical writes and check the post state
    let labels: Vec<&'static str> = {
        let (mut store, guard) = build(ctx, case);
        store.commit(&du);
        let labels = verif_hooks::take_seen();
        drop(store);
        let store = RocksDBWithMerkleTreeSubstateStore::standard(guard.0.clone());
        local.eval();
        match judge(&store, &pre, &post) {
            Ok("post-commit-state") => local.class("unfaulted:post-commit-state"),
            Ok(_) => local.violation("unfaulted-commit-not-applied", "a completed commit left the pre-commit state", case.to_json(None)),
            Err((k, w)) => local.violation(format!("unfaulted:{k}"), w, case.to_json(None)),
        }
        labels
    };
    let w = labels.len();
    if w == 0 {
        mc_core::machinery_error("C19: the crash-point hook saw no physical write in a commit (hook not compiled in?)");
    }
    let mut nontrivial = 0;
    for k in 1..=w {
        let (mut store, guard) = build(ctx, case);
        verif_hooks::arm(k as u64);
        let r = mc_core::catch(|| store.commit(&du));
        verif_hooks::disarm();
        let seen = verif_hooks::take_seen();
        match r {
            Err(p) if p.starts_with(verif_hooks::CRASH_MARKER) => {}
            Err(p) => mc_core::machinery_error(&format!("C19: commit panicked for another reason than the crash point: {p}")),
            Ok(()) => mc_core::machinery_error("C19: armed crash point was not reached (write sequence not deterministic)"),
        }
        if seen.len() != k || seen[..] != labels[..k] {
            mc_core::machinery_error("C19: write sequence differs between the counting run and the faulted run");
        }
        drop(store); // the process is gone; RocksDB keeps what was written so far
        let store = RocksDBWithMerkleTreeSubstateStore::standard(guard.0.clone());
        local.eval();
        if pre.1 != post.1 {
            nontrivial += 1;
        }
        let label = labels[k - 1];
        match judge(&store, &pre, &post) {
            Ok(c) => {
                local.class(&format!("{c}@stop-before:{label}"));
                if k == 2 || k == w {
                    local.sample(|| json!({"case": case.to_json(Some((k as u64, label))), "recovered": c, "writes_in_commit": w}));
                }
            }
            Err((key, what)) => {
                local.class(&format!("VIOLATION:{key}@stop-before:{label}"));
                local.violation(format!("{key}:stop-before={label}"), format!("stopped before write {k} of {w} ({label}): {what}"), case.to_json(Some((k as u64, label))));
            }
        }
        drop(store);
        drop(guard);
    }
    CaseResult { local, writes: w, nontrivial }
}

fn cases(prefix_len: usize) -> Vec<Case> {
    let b = batches();
    let mut prefixes: Vec<Vec<Commit>> = vec![vec![]];
    let mut layer: Vec<Vec<Commit>> = vec![vec![]];
    for _ in 0..prefix_len {
        let mut next = vec![];
        for p in &layer {
            for c in &b {
                let mut q = p.clone();
                q.push(c.clone());
                next.push(q);
            }
        }
        prefixes.extend(next.iter().cloned());
        layer = next;
    }
    // shortest histories first, simplest victim first, pruning (the default configuration) first
    let mut out = vec![];
    for p in &prefixes {
        for v in &b {
            for pruning in [true, false] {
                out.push(Case { pruning, prefix: p.clone(), victim: v.clone() });
            }
        }
    }
    out
}

pub fn run(ctx: Ctx) -> ! {
    mc_core::install_quiet_panic_hook();
    if let Some(case) = ctx.read_replay_case() {
        replay(ctx, case);
    }
    let prefix_len = ctx.pick(2, 3);
    let all = cases(prefix_len);
    let wall_cap = ctx.pick(50.0, 1100.0);
    let stopped = std::sync::atomic::AtomicBool::new(false);
    let results: Vec<Option<CaseResult>> = par_map(ctx.threads, &all, |case| {
        if ctx.elapsed_s() > wall_cap {
            stopped.store(true, Ordering::Relaxed);
            return None;
        }
        Some(run_case(&ctx, case))
    });
    let mut hist: BTreeMap<usize, u64> = BTreeMap::new();
    let mut nontrivial = 0;
    let mut done = 0u64;
    let mut first_skipped = None;
    for (i, r) in results.into_iter().enumerate() {
        match r {
            Some(r) => {
                *hist.entry(r.writes).or_insert(0) += 1;
                nontrivial += r.nontrivial;
                done += 1;
                ctx.merge(r.local);
            }
            None => {
                if first_skipped.is_none() {
                    first_skipped = Some(i);
                }
            }
        }
    }
    let exhaustive = !stopped.load(Ordering::Relaxed);
    let mut cov = Map::new();
    cov.insert("batch_alphabet".into(), json!(batches().len()));
    cov.insert("max_committed_batches_before_victim".into(), json!(prefix_len));
    cov.insert("histories".into(), json!(all.len()));
    cov.insert("histories_completed".into(), json!(done));
    if let Some(i) = first_skipped {
        cov.insert("first_history_skipped_by_wall_cap".into(), json!(i));
    }
    cov.insert("fault_points_per_history".into(), json!(hist.iter().map(|(k, v)| (k.to_string(), *v)).collect::<BTreeMap<_, _>>()));
    ctx.finish(
        Level::FaultEnumeration,
        "a case is (pruning flag, <= L committed batches, victim batch, k): the victim commit is stopped right before its k-th physical write, for every k up to the number of writes counted in an un-faulted run; an evaluation is one reopened store judged against the pre-/post-commit state, the independent root and the tree listing; non-trivial = cases whose victim changes at least one substate (pre-commit and post-commit states differ)",
        nontrivial,
        exhaustive,
        cov,
        &[
            "RocksDB writes of one process are totally ordered through its WAL; a process stop or power loss yields a prefix of that order. Every prefix of the commit's own write sequence is enumerated; torn writes inside one RocksDB write are RocksDB's responsibility",
            "the stop is modelled by a panic at the crash point, unwinding out of commit, dropping the store handle and reopening the directory",
            "blake2b-256 is shared between the reference commitment and the tree; keys have equal length per tier",
        ],
    )
}

fn replay(ctx: Ctx, case: Value) -> ! {
    let parse_list = |v: Option<&Value>| -> Vec<Commit> { v.and_then(|x| x.as_array()).map(|a| a.iter().filter_map(Commit::from_json).collect()).unwrap_or_default() };
    let inner = case.get("case").cloned().unwrap_or(case.clone());
    let c = Case {
        pruning: inner.get("pruning").and_then(|b| b.as_bool()).unwrap_or(true),
        prefix: parse_list(inner.get("prefix")),
        victim: inner.get("victim").and_then(Commit::from_json).unwrap_or_else(|| mc_core::machinery_error("replay case has no victim")),
    };
    let r = run_case(&ctx, &c);
    println!("writes in the victim commit: {}", r.writes);
    for (k, n) in &r.local.classes {
        println!("  {k}: {n}");
    }
    for v in &r.local.violations {
        println!("  VIOLATION {}: {}", v.key, v.what);
    }
    ctx.merge(r.local);
    ctx.finish(Level::FaultEnumeration, "replay", 0, false, Map::new(), &[])
}
