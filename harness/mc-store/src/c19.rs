//! C19 — a crash during a Merkle-store commit leaves a consistent store.
//!
//! Fault enumeration on the real `RocksDBWithMerkleTreeSubstateStore`: every history of <= L committed
//! batches from a 10-batch alphabet, pruning on and off, followed by one victim batch. The victim is
//! first committed un-faulted while the source hook counts its physical writes W; then, for every
//! k in 1..=W, the pre-commit state is re-established and the commit is stopped right before its k-th
//! physical write (hook panics -> unwind -> store dropped -> directory reopened): every prefix of the
//! commit's write sequence. Opening RocksDB costs 0.2 s and more here, so (a) experiments are chained on
//! long-lived directories instead of each getting a fresh one, (b) the real close + reopen is performed
//! for the shortest histories (see `real_reopen`) and for every finding, while the other stops are judged
//! through the surviving handle (the store struct holds nothing but that handle). A finding is re-run on
//! a fresh directory (prefix committed on an empty store, reopened with `standard()`) for the replay case.
//! Oracle on the reopened store: (version, substates) is the pre-commit or the post-commit pair, the
//! recorded root is the independent commitment (refmerkle) of the substates held, and the tree read at
//! the recorded version lists exactly the hashes of those substates. Unreachable leftover tree nodes are
//! allowed (the statement speaks of version, root and substates only).
use crate::alphabet::*;
use crate::c17::{listing_of, show_listing};
use crate::refmerkle;
use crate::treekeys;
use mc_core::{par_map, Ctx, Level, Local};
use radix_common::prelude::Hash;
use radix_substate_store_impls::rocks_db_with_merkle_tree::{Options, RocksDBWithMerkleTreeSubstateStore};
use radix_substate_store_impls::verif_hooks;
use radix_substate_store_interface::interface::*;
use serde_json::{json, Map, Value};
use std::collections::BTreeMap;
use std::path::PathBuf;
use std::sync::atomic::{AtomicU64, Ordering};

fn batches() -> Vec<Commit> {
    let e = treekeys::entities();
    let p = treekeys::partitions();
    let k = treekeys::sort_keys();
    let v1 = treekeys::V1.to_vec();
    let v2 = treekeys::V2.to_vec();
    let set = |kk: &Sort, v: &Val| (kk.clone(), Some(v.clone()));
    let del = |kk: &Sort| (kk.clone(), None);
    vec![
        // 0: one substate put
        Commit(vec![Atom::new(&e[0], p[0], PU::Delta(vec![set(&k[0], &v1)]))]),
        // 1: two puts in one partition (overwrite + new key sharing 15 bits)
        Commit(vec![Atom::new(&e[0], p[0], PU::Delta(vec![set(&k[0], &v2), set(&k[1], &v1)]))]),
        // 2: one delete (present or absent)
        Commit(vec![Atom::new(&e[0], p[0], PU::Delta(vec![del(&k[0])]))]),
        // 3: two deletes (may empty the partition / entity / state)
        Commit(vec![Atom::new(&e[0], p[0], PU::Delta(vec![del(&k[0]), del(&k[1])]))]),
        // 4: reset without new values
        Commit(vec![Atom::new(&e[0], p[0], PU::Reset(vec![]))]),
        // 5: reset with new values
        Commit(vec![Atom::new(&e[0], p[0], PU::Reset(vec![(k[2].clone(), v1.clone()), (k[3].clone(), v2.clone())]))]),
        // 6: two partitions of one entity
        Commit(vec![Atom::new(&e[0], p[0], PU::Delta(vec![set(&k[3], &v1)])), Atom::new(&e[0], p[1], PU::Delta(vec![set(&k[0], &v1)]))]),
        // 7: two entities, delta + reset
        Commit(vec![Atom::new(&e[1], p[0], PU::Delta(vec![set(&k[0], &v1)])), Atom::new(&e[2], p[2], PU::Reset(vec![(k[1].clone(), v2.clone())]))]),
        // 8: an entity whose key shares 30 bits with entity 0 (restructures the entity tier)
        Commit(vec![Atom::new(&e[1], p[0], PU::Delta(vec![set(&k[1], &v2)]))]),
        // 9: wipe entity 0 by resets
        Commit(vec![Atom::new(&e[0], p[0], PU::Reset(vec![])), Atom::new(&e[0], p[1], PU::Reset(vec![]))]),
    ]
}

#[derive(Clone)]
struct Case {
    pruning: bool,
    prefix: Vec<Commit>,
    victim: Commit,
    /// also close and reopen the directory after every stop (always done when confirming a finding)
    real_reopen: bool,
}

impl Case {
    fn to_json(&self, stop_before: Option<(u64, &str)>) -> Value {
        let mut v = json!({"pruning": self.pruning, "prefix": self.prefix.iter().map(|c| c.to_json()).collect::<Vec<_>>(), "victim": self.victim.to_json()});
        if let Some((k, label)) = stop_before {
            v["stop_before_write"] = json!(k);
            v["write_label"] = json!(label);
        }
        v
    }
}

struct DirGuard(PathBuf);
impl Drop for DirGuard {
    fn drop(&mut self) {
        let _ = std::fs::remove_dir_all(&self.0);
    }
}

static DIR_COUNTER: AtomicU64 = AtomicU64::new(0);
static OPENS: AtomicU64 = AtomicU64::new(0);
static SESSIONS_DISCARDED: AtomicU64 = AtomicU64::new(0);
static REOPENED: AtomicU64 = AtomicU64::new(0);

fn open(dir: &PathBuf, pruning: bool) -> RocksDBWithMerkleTreeSubstateStore {
    OPENS.fetch_add(1, Ordering::Relaxed);
    if pruning {
        // the default configuration
        return RocksDBWithMerkleTreeSubstateStore::standard(dir.clone());
    }
    let mut options = Options::default();
    options.create_if_missing(true);
    options.create_missing_column_families(true);
    RocksDBWithMerkleTreeSubstateStore::with_options(&options, dir.clone(), false)
}

/// One directory that lives through many experiments: its store receives one long history of commits,
/// some of them interrupted, and is reopened after every interruption (opening a RocksDB directory costs
/// ~0.2 s here, creating a fresh one more, so experiments are chained instead of each getting a new
/// directory; findings are re-run on a fresh directory).
struct Session {
    store: Option<RocksDBWithMerkleTreeSubstateStore>,
    pruning: bool,
    model: RefDb,
    trace: Vec<Value>,
    dir: DirGuard,
}

impl Session {
    fn new(ctx: &Ctx, pruning: bool) -> Session {
        let n = DIR_COUNTER.fetch_add(1, Ordering::Relaxed);
        let dir = ctx.scratch_dir(&format!("d{n}"));
        let store = open(&dir, pruning);
        verif_hooks::disarm();
        let _ = verif_hooks::take_seen();
        Session { store: Some(store), pruning, model: RefDb::default(), trace: vec![], dir: DirGuard(dir) }
    }
    fn store(&self) -> &RocksDBWithMerkleTreeSubstateStore {
        self.store.as_ref().unwrap()
    }
    /// un-faulted commit
    fn commit(&mut self, c: &Commit) {
        self.store.as_mut().unwrap().commit(&c.to_database_updates());
        self.model.apply(c);
        self.trace.push(json!({"commit": c.to_json()}));
    }
    /// Bring the store to the state "prefix committed on an empty store" (content-wise).
    fn position(&mut self, prefix: &[Commit], prefix_model: &RefDb) {
        if &self.model == prefix_model {
            return;
        }
        if !self.model.parts.is_empty() {
            let wipe = Commit(self.model.parts.keys().map(|p| Atom::new(&p.0, p.1, PU::Reset(vec![]))).collect());
            self.commit(&wipe);
        }
        for c in prefix {
            self.commit(c);
        }
        if &self.model != prefix_model {
            mc_core::machinery_error("C19: positioning did not reach the prefix content (harness bug)");
        }
    }
    /// After a finding the directory holds substates and a tree that disagree. Make it usable again
    /// through the public API only: reset every partition known to the substates, to the tree at the
    /// recorded version, or to the model. Returns false if that did not give a consistent empty store.
    fn repair(&mut self) -> bool {
        let store = self.store.as_ref().unwrap();
        let mut parts: Vec<PKey> = real_partition_keys(store);
        let v = store.get_current_version();
        match mc_core::catch(|| listing_of(store, v)) {
            Ok(l) => parts.extend(l.keys().cloned()),
            Err(_) => return false,
        }
        parts.extend(self.model.parts.keys().cloned());
        parts.sort();
        parts.dedup();
        let wipe = Commit(parts.iter().map(|p| Atom::new(&p.0, p.1, PU::Reset(vec![]))).collect());
        if mc_core::catch(|| self.store.as_mut().unwrap().commit(&wipe.to_database_updates())).is_err() {
            return false;
        }
        self.trace.push(json!({"repair_commit": wipe.to_json()}));
        self.model = RefDb::default();
        let store = self.store.as_ref().unwrap();
        let r = read_back(store);
        r.substates.parts.is_empty() && r.root == refmerkle::ZERO && matches!(mc_core::catch(|| listing_of(store, r.version)), Ok(l) if l.is_empty())
    }
    /// "The process stops": drop the handle, reopen the directory.
    fn reopen(&mut self) {
        self.store = None;
        self.store = Some(open(&self.dir.0, self.pruning));
    }
}

struct Recovered {
    version: u64,
    root: Hash,
    substates: RefDb,
}

fn read_back(store: &RocksDBWithMerkleTreeSubstateStore) -> Recovered {
    Recovered { version: store.get_current_version(), root: store.get_current_root_hash(), substates: real_contents(store) }
}

/// The statement's oracle. Ok(class) or Err((key, what)).
fn judge(store: &RocksDBWithMerkleTreeSubstateStore, pre: &(u64, RefDb), post: &(u64, RefDb)) -> Result<&'static str, (String, String)> {
    let r = read_back(store);
    let which = if r.version == post.0 && r.substates == post.1 {
        "post-commit-state"
    } else if r.version == pre.0 && r.substates == pre.1 {
        "pre-commit-state"
    } else {
        let describe = |s: &RefDb| s.to_json().to_string();
        let sub = if r.substates == pre.1 {
            "the pre-commit substates"
        } else if r.substates == post.1 {
            "the post-commit substates"
        } else {
            "substates that are neither the pre- nor the post-commit set"
        };
        return Err((
            "torn-commit".into(),
            format!(
                "reopened store records version {} and holds {}: {} (pre-commit: version {} {}; post-commit: version {} {})",
                r.version,
                sub,
                describe(&r.substates),
                pre.0,
                describe(&pre.1),
                post.0,
                describe(&post.1)
            ),
        ));
    };
    let want_root = refmerkle::state_root(&r.substates);
    if r.root != want_root {
        return Err(("root-does-not-describe-substates".into(), format!("recovered the {which} but the recorded root {} is not the commitment {} of the substates held", mc_core::hex(&r.root.0), mc_core::hex(&want_root.0))));
    }
    let want = refmerkle::substate_hashes(&r.substates);
    match mc_core::catch(|| listing_of(store, r.version)) {
        Ok(l) if l == want => Ok(which),
        Ok(l) => Err(("tree-does-not-describe-substates".into(), format!("recovered the {which} but the tree at recorded version {} lists {} while the store holds {}", r.version, show_listing(&l), show_listing(&want)))),
        Err(p) => Err(("tree-unreadable".into(), format!("recovered the {which} but reading the tree at recorded version {} panicked: {p}", r.version))),
    }
}

enum Attempt {
    /// stopped right before the k-th physical write, which carries this label
    Stopped(&'static str),
    /// the commit performed fewer than k physical writes and completed (their number)
    Completed(usize),
}

/// Commit `victim` with the k-th physical write armed.
fn attempt_commit(store: &mut RocksDBWithMerkleTreeSubstateStore, victim: &DatabaseUpdates, k: usize) -> Attempt {
    let _ = verif_hooks::take_seen();
    verif_hooks::arm(k as u64);
    let r = mc_core::catch(|| store.commit(victim));
    verif_hooks::disarm();
    let seen = verif_hooks::take_seen();
    match r {
        Err(p) if p.starts_with(verif_hooks::CRASH_MARKER) => {
            if seen.len() != k {
                mc_core::machinery_error("C19: crash point fired at the wrong write");
            }
            Attempt::Stopped(seen[k - 1])
        }
        Err(p) => mc_core::machinery_error(&format!("C19: commit panicked for another reason than the crash point: {p}")),
        Ok(()) => {
            if seen.len() >= k {
                mc_core::machinery_error("C19: armed crash point was passed without stopping");
            }
            Attempt::Completed(seen.len())
        }
    }
}

/// The experiment on a fresh directory, exactly as the design states it (used to confirm findings and by replay).
fn fresh_experiment(ctx: &Ctx, case: &Case, k: usize) -> Result<&'static str, (String, String)> {
    let mut s = Session::new(ctx, case.pruning);
    let mut pre_model = RefDb::default();
    for c in &case.prefix {
        s.commit(c);
        pre_model.apply(c);
    }
    let mut post_model = pre_model.clone();
    post_model.apply(&case.victim);
    let v = s.store().get_current_version();
    if let Attempt::Completed(n) = attempt_commit(s.store.as_mut().unwrap(), &case.victim.to_database_updates(), k) {
        // on a fresh directory this commit has fewer writes (e.g. no stale root to prune): nothing to stop
        let _ = n;
        return Ok("post-commit-state");
    }
    s.store = None;
    OPENS.fetch_add(1, Ordering::Relaxed);
    let reopened = RocksDBWithMerkleTreeSubstateStore::standard(s.dir.0.clone());
    judge(&reopened, &(v, pre_model), &(v + 1, post_model))
}

struct CaseResult {
    local: Local,
    writes: usize,
    nontrivial: u64,
    pending: Vec<Pending>,
}

/// A finding made on a chained directory, not yet re-run on a fresh one.
struct Pending {
    key: String,
    what: String,
    k: usize,
    writes: usize,
    label: &'static str,
    /// whole session so far (kept for the first finding of each key in a session only)
    session: Option<Vec<Value>>,
}

fn run_case(ctx: &Ctx, sess: &mut Session, case: &Case, keys_seen: &mut Vec<String>) -> CaseResult {
    let mut local = Local::new();
    let mut pending = vec![];
    let mut pre_model = RefDb::default();
    for c in &case.prefix {
        pre_model.apply(c);
    }
    let mut post_model = pre_model.clone();
    post_model.apply(&case.victim);
    let du = case.victim.to_database_updates();
    if sess.pruning != case.pruning {
        *sess = Session::new(ctx, case.pruning);
    }

    // k = 1, 2, 3, ...: stop before the k-th physical write, until a run performs fewer than k writes and
    // completes; that run is the un-faulted one and tells the number of writes W.
    let mut nontrivial = 0;
    let mut k = 0usize;
    let w;
    loop {
        k += 1;
        if k > 500 {
            mc_core::machinery_error("C19: a commit with more than 500 physical writes?");
        }
        sess.position(&case.prefix, &pre_model);
        let v = sess.store().get_current_version();
        let pre = (v, pre_model.clone());
        let post = (v + 1, post_model.clone());
        let label = match attempt_commit(sess.store.as_mut().unwrap(), &du, k) {
            Attempt::Stopped(label) => label,
            Attempt::Completed(n) => {
                w = n;
                sess.model = post.1.clone();
                sess.trace.push(json!({"commit": case.victim.to_json()}));
                local.eval();
                match judge(sess.store(), &pre, &post) {
                    Ok("post-commit-state") => local.class("unfaulted:post-commit-state"),
                    Ok(_) => local.violation("unfaulted-commit-not-applied", "a completed commit left the pre-commit state", case.to_json(None)),
                    Err((key, what)) => local.violation(format!("unfaulted:{key}"), what, case.to_json(None)),
                }
                if n == 0 {
                    mc_core::machinery_error("C19: the crash-point hook saw no physical write in a commit (hook not compiled in?)");
                }
                break;
            }
        };
        sess.trace.push(json!({"commit_stopped_before_write": k, "write_label": label, "commit": case.victim.to_json()}));
        local.eval();
        if pre.1 != post.1 {
            nontrivial += 1;
        }
        // The process is gone; RocksDB keeps what was written so far. The store object holds nothing but
        // the RocksDB handle, so what the surviving handle reads is what a reopened store reads.
        let mut verdict = judge(sess.store(), &pre, &post);
        if case.real_reopen {
            sess.reopen();
            let reopened = judge(sess.store(), &pre, &post);
            REOPENED.fetch_add(1, Ordering::Relaxed);
            let same = match (&verdict, &reopened) {
                (Ok(a), Ok(b)) => a == b,
                (Err(a), Err(b)) => a.0 == b.0,
                _ => false,
            };
            if !same {
                local.info("judgement-through-surviving-handle-differs-from-reopened-store");
            }
            verdict = reopened; // the statement speaks of the reopened store
        }
        match verdict {
            Ok(c) => {
                local.class(&format!("{c}@stop-before:{label}"));
                sess.model = if c == "post-commit-state" { post.1.clone() } else { pre.1.clone() };
                if k <= 2 {
                    local.sample(|| json!({"case": case.to_json(Some((k as u64, label))), "recovered": c}));
                }
            }
            Err((key, what)) => {
                local.class(&format!("VIOLATION:{key}@stop-before:{label}"));
                let full_key = format!("{key}:stop-before={label}");
                let first_in_session = !keys_seen.contains(&full_key);
                if first_in_session {
                    keys_seen.push(full_key.clone());
                }
                pending.push(Pending { key: full_key, what, k, writes: 0, label, session: if first_in_session { Some(sess.trace.clone()) } else { None } });
                // the directory is inconsistent now: repair it through the API, or continue on a new one
                if !sess.repair() {
                    SESSIONS_DISCARDED.fetch_add(1, Ordering::Relaxed);
                    *sess = Session::new(ctx, case.pruning);
                }
            }
        }
    }
    for p in pending.iter_mut() {
        p.writes = w;
    }
    CaseResult { local, writes: w, nontrivial, pending }
}

fn cases(prefix_len: usize, reopen_upto: usize) -> Vec<Case> {
    let b = batches();
    let mut prefixes: Vec<Vec<Commit>> = vec![vec![]];
    let mut layer: Vec<Vec<Commit>> = vec![vec![]];
    for _ in 0..prefix_len {
        let mut next = vec![];
        for p in &layer {
            for c in &b {
                let mut q = p.clone();
                q.push(c.clone());
                next.push(q);
            }
        }
        prefixes.extend(next.iter().cloned());
        layer = next;
    }
    // shortest histories first, simplest victim first, pruning (the default configuration) first
    let mut out = vec![];
    for p in &prefixes {
        for v in &b {
            for pruning in [true, false] {
                out.push(Case { pruning, prefix: p.clone(), victim: v.clone(), real_reopen: p.len() <= reopen_upto });
            }
        }
    }
    out
}

pub fn run(ctx: Ctx) -> ! {
    mc_core::install_quiet_panic_hook();
    if let Some(case) = ctx.read_replay_case() {
        replay(ctx, case);
    }
    let prefix_len = ctx.pick(2, 3);
    let reopen_upto = ctx.pick(0, 1);
    let all = cases(prefix_len, reopen_upto);
    let wall_cap = ctx.pick(50.0, 1100.0);
    let stopped = std::sync::atomic::AtomicBool::new(false);
    // fixed round-robin distribution (independent of the thread count): one session per slot, cases in order
    const SLOTS: usize = 16;
    let slots: Vec<Vec<usize>> = (0..SLOTS).map(|s| (s..all.len()).step_by(SLOTS).collect()).collect();
    let slot_results: Vec<Vec<(usize, Option<CaseResult>)>> = par_map(ctx.threads, &slots, |idxs| {
        let mut out = vec![];
        if idxs.is_empty() {
            return out;
        }
        let mut sess = Session::new(&ctx, all[idxs[0]].pruning);
        let mut confirmed = vec![];
        for &i in idxs.iter() {
            if ctx.elapsed_s() > wall_cap {
                stopped.store(true, Ordering::Relaxed);
                out.push((i, None));
                continue;
            }
            out.push((i, Some(run_case(&ctx, &mut sess, &all[i], &mut confirmed))));
        }
        out
    });
    let mut indexed: Vec<(usize, Option<CaseResult>)> = slot_results.into_iter().flatten().collect();
    indexed.sort_by_key(|x| x.0);
    let results: Vec<Option<CaseResult>> = indexed.into_iter().map(|x| x.1).collect();
    let mut hist: BTreeMap<usize, u64> = BTreeMap::new();
    let mut nontrivial = 0;
    let mut done = 0u64;
    let mut first_skipped = None;
    // first finding per key in case order (shortest history, simplest victim, earliest write first)
    let mut first_by_key: BTreeMap<String, (usize, Pending)> = BTreeMap::new();
    let mut findings = 0u64;
    for (i, r) in results.into_iter().enumerate() {
        match r {
            Some(r) => {
                *hist.entry(r.writes).or_insert(0) += 1;
                nontrivial += r.nontrivial;
                done += 1;
                ctx.merge(r.local);
                for p in r.pending {
                    findings += 1;
                    first_by_key.entry(p.key.clone()).or_insert((i, p));
                }
            }
            None => {
                if first_skipped.is_none() {
                    first_skipped = Some(i);
                }
            }
        }
    }
    // Re-run each distinct finding on a fresh directory with a real close + reopen: that is the replay case.
    for (key, (i, p)) in first_by_key {
        let case = &all[i];
        let head = format!("stopped before write {} ({})", p.k, p.label);
        match fresh_experiment(&ctx, case, p.k) {
            Err((key2, what2)) => ctx.violation(format!("{key2}:stop-before={}", p.label), format!("{head}: {what2}"), case.to_json(Some((p.k as u64, p.label)))),
            Ok(_) => ctx.violation(
                format!("{key}:only-after-longer-history"),
                format!("{head}: {} (not reproduced on a fresh directory; the case carries the whole session)", p.what),
                json!({"pruning": case.pruning, "session": p.session.unwrap_or_default()}),
            ),
        }
    }
    let exhaustive = !stopped.load(Ordering::Relaxed);
    let mut cov = Map::new();
    cov.insert("batch_alphabet".into(), json!(batches().len()));
    cov.insert("max_committed_batches_before_victim".into(), json!(prefix_len));
    cov.insert("histories".into(), json!(all.len()));
    cov.insert("histories_completed".into(), json!(done));
    if let Some(i) = first_skipped {
        cov.insert("first_history_skipped_by_wall_cap".into(), json!(i));
    }
    cov.insert("stops_followed_by_real_close_and_reopen".into(), json!(REOPENED.load(Ordering::Relaxed)));
    cov.insert("real_reopen_for_histories_with_committed_batches_upto".into(), json!(reopen_upto));
    cov.insert("findings_before_dedup_by_key".into(), json!(findings));
    cov.insert("store_opens".into(), json!(OPENS.load(Ordering::Relaxed)));
    cov.insert("directories_discarded_after_findings".into(), json!(SESSIONS_DISCARDED.load(Ordering::Relaxed)));
    cov.insert("fault_points_per_history".into(), json!(hist.iter().map(|(k, v)| (k.to_string(), *v)).collect::<BTreeMap<_, _>>()));
    ctx.finish(
        Level::FaultEnumeration,
        "a case is (pruning flag, <= L committed batches, victim batch, k): the victim commit is stopped right before its k-th physical write, for every k up to the number of writes counted in an un-faulted run; an evaluation is one reopened store judged against the pre-/post-commit state, the independent root and the tree listing; non-trivial = cases whose victim changes at least one substate (pre-commit and post-commit states differ)",
        nontrivial,
        exhaustive,
        cov,
        &[
            "RocksDB writes of one process are totally ordered through its WAL; a process stop or power loss yields a prefix of that order. Every prefix of the commit's own write sequence is enumerated; torn writes inside one RocksDB write are RocksDB's responsibility",
            "the stop is modelled by a panic at the crash point unwinding out of commit; the store object holds no state besides its RocksDB handle, so every stop is judged through the surviving handle, and for the histories listed under real_reopen (and for every finding) the handle is really dropped and the directory reopened, the reopened judgement being the one that counts",
            "experiments are chained on long-lived directories (the pre-commit state is reached by wiping with resets and re-committing the prefix, after earlier interrupted commits on the same directory); every finding is re-run on a fresh directory and reported from there if it reproduces",
            "blake2b-256 is shared between the reference commitment and the tree; keys have equal length per tier",
        ],
    )
}

fn replay(ctx: Ctx, case: Value) -> ! {
    let parse_list = |v: Option<&Value>| -> Vec<Commit> { v.and_then(|x| x.as_array()).map(|a| a.iter().filter_map(Commit::from_json).collect()).unwrap_or_default() };
    let inner = case.get("case").cloned().unwrap_or(case.clone());
    let c = Case {
        pruning: inner.get("pruning").and_then(|b| b.as_bool()).unwrap_or(true),
        prefix: parse_list(inner.get("prefix")),
        victim: inner.get("victim").and_then(Commit::from_json).unwrap_or_else(|| mc_core::machinery_error("replay case has no victim")),
        real_reopen: true,
    };
    let mut sess = Session::new(&ctx, c.pruning);
    let mut confirmed = vec![];
    let r = run_case(&ctx, &mut sess, &c, &mut confirmed);
    drop(sess);
    println!("writes in the victim commit: {}", r.writes);
    for (k, n) in &r.local.classes {
        println!("  {k}: {n}");
    }
    for p in &r.pending {
        println!("  VIOLATION {}: stopped before write {} of {} ({}): {}", p.key, p.k, p.writes, p.label, p.what);
        ctx.violation(p.key.clone(), p.what.clone(), case.clone());
    }
    ctx.merge(r.local);
    ctx.finish(Level::FaultEnumeration, "replay", 0, false, Map::new(), &[])
}
