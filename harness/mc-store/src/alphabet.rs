//! Commit alphabets and the boring reference database shared by C14 C15 C17 C18 C19.
//!
//! A `Commit` is the harness-side description of one `DatabaseUpdates` (ordered list of partition
//! updates on distinct partitions). `RefDb` is the reference semantics of a substate database written
//! with plain maps: a partition exists iff it holds at least one substate; listings are in bytewise
//! order of the sort key, starting at the first key >= cursor.
use radix_common::prelude::*;
use radix_substate_store_interface::interface::*;
use serde_json::{json, Value};
use std::collections::BTreeMap;
use std::fmt;

pub type NodeKey = Vec<u8>;
pub type Sort = Vec<u8>;
pub type Val = Vec<u8>;
pub type PKey = (NodeKey, u8);

/// Update of one partition.
#[derive(Clone, PartialEq, Eq, Hash, PartialOrd, Ord)]
pub enum PU {
    /// (sort key, Some(value) = set | None = delete); sort keys distinct
    Delta(Vec<(Sort, Option<Val>)>),
    /// drop everything, then hold exactly these
    Reset(Vec<(Sort, Val)>),
}

/// One partition update addressed to a partition.
#[derive(Clone, PartialEq, Eq, Hash, PartialOrd, Ord)]
pub struct Atom {
    pub node: NodeKey,
    pub part: u8,
    pub pu: PU,
}

/// One commit = partition updates on pairwise distinct partitions.
#[derive(Clone, PartialEq, Eq, Hash, PartialOrd, Ord)]
pub struct Commit(pub Vec<Atom>);

impl PU {
    pub fn kind(&self) -> &'static str {
        match self {
            PU::Delta(_) => "delta",
            PU::Reset(_) => "reset",
        }
    }
    pub fn to_json(&self) -> Value {
        match self {
            PU::Delta(v) => json!({"delta": v.iter().map(|(k, x)| json!([mc_core::hex(k), x.as_ref().map(|x| mc_core::hex(x))])).collect::<Vec<_>>()}),
            PU::Reset(v) => json!({"reset": v.iter().map(|(k, x)| json!([mc_core::hex(k), mc_core::hex(x)])).collect::<Vec<_>>()}),
        }
    }
    pub fn from_json(v: &Value) -> Option<PU> {
        if let Some(a) = v.get("delta").and_then(|x| x.as_array()) {
            let mut out = vec![];
            for e in a {
                let k = mc_core::unhex(e.get(0)?.as_str()?);
                let x = e.get(1)?.as_str().map(mc_core::unhex);
                out.push((k, x));
            }
            return Some(PU::Delta(out));
        }
        let a = v.get("reset")?.as_array()?;
        let mut out = vec![];
        for e in a {
            out.push((mc_core::unhex(e.get(0)?.as_str()?), mc_core::unhex(e.get(1)?.as_str()?)));
        }
        Some(PU::Reset(out))
    }
}

impl Atom {
    pub fn new(node: &[u8], part: u8, pu: PU) -> Atom {
        Atom { node: node.to_vec(), part, pu }
    }
    pub fn pkey(&self) -> PKey {
        (self.node.clone(), self.part)
    }
    pub fn to_json(&self) -> Value {
        json!({"node": mc_core::hex(&self.node), "partition": self.part, "update": self.pu.to_json()})
    }
    pub fn from_json(v: &Value) -> Option<Atom> {
        Some(Atom { node: mc_core::unhex(v.get("node")?.as_str()?), part: v.get("partition")?.as_u64()? as u8, pu: PU::from_json(v.get("update")?)? })
    }
}

impl Commit {
    pub fn one(a: Atom) -> Commit {
        Commit(vec![a])
    }
    pub fn to_json(&self) -> Value {
        Value::Array(self.0.iter().map(|a| a.to_json()).collect())
    }
    pub fn from_json(v: &Value) -> Option<Commit> {
        let mut out = vec![];
        for a in v.as_array()? {
            out.push(Atom::from_json(a)?);
        }
        Some(Commit(out))
    }
    /// History entries of replay files are the `Debug` rendering (= JSON text) of the op.
    pub fn from_history_entry(v: &Value) -> Option<Commit> {
        match v {
            Value::String(s) => Commit::from_json(&serde_json::from_str::<Value>(s).ok()?),
            other => Commit::from_json(other),
        }
    }

    /// The real `DatabaseUpdates` for this commit (nodes / partitions in order of first appearance).
    pub fn to_database_updates(&self) -> DatabaseUpdates {
        let mut du = DatabaseUpdates::default();
        for a in &self.0 {
            let pu = match &a.pu {
                PU::Delta(v) => PartitionDatabaseUpdates::Delta {
                    substate_updates: v
                        .iter()
                        .map(|(k, x)| {
                            (
                                DbSortKey(k.clone()),
                                match x {
                                    Some(val) => DatabaseUpdate::Set(val.clone()),
                                    None => DatabaseUpdate::Delete,
                                },
                            )
                        })
                        .collect(),
                },
                PU::Reset(v) => PartitionDatabaseUpdates::Reset { new_substate_values: v.iter().map(|(k, x)| (DbSortKey(k.clone()), x.clone())).collect() },
            };
            let prev = du.node_updates.entry(a.node.clone()).or_default().partition_updates.insert(a.part, pu);
            assert!(prev.is_none(), "harness bug: a commit must address distinct partitions");
        }
        du
    }
}

impl fmt::Debug for Atom {
    fn fmt(&self, f: &mut fmt::Formatter<'_>) -> fmt::Result {
        write!(f, "{}", self.to_json())
    }
}
impl fmt::Debug for Commit {
    fn fmt(&self, f: &mut fmt::Formatter<'_>) -> fmt::Result {
        write!(f, "{}", self.to_json())
    }
}

/// Sequential composition of two updates of the same partition into the single update that a
/// `DatabaseUpdates` must carry for it (a partition occurs at most once per commit).
pub fn compose(first: &PU, second: &PU) -> PU {
    match (first, second) {
        (_, PU::Reset(v)) => PU::Reset(v.clone()),
        (PU::Delta(a), PU::Delta(b)) => {
            let mut out = a.clone();
            for (k, x) in b {
                if let Some(e) = out.iter_mut().find(|(k2, _)| k2 == k) {
                    e.1 = x.clone();
                } else {
                    out.push((k.clone(), x.clone()));
                }
            }
            PU::Delta(out)
        }
        (PU::Reset(a), PU::Delta(b)) => {
            let mut out = a.clone();
            for (k, x) in b {
                out.retain(|(k2, _)| k2 != k);
                if let Some(val) = x {
                    out.push((k.clone(), val.clone()));
                }
            }
            PU::Reset(out)
        }
    }
}

/// Merge a sequence of atoms into one commit (same partition => composed in order).
pub fn merge_atoms(atoms: &[Atom]) -> Commit {
    let mut out: Vec<Atom> = vec![];
    for a in atoms {
        if let Some(e) = out.iter_mut().find(|e| e.node == a.node && e.part == a.part) {
            e.pu = compose(&e.pu, &a.pu);
        } else {
            out.push(a.clone());
        }
    }
    Commit(out)
}

/// Reference database.
#[derive(Clone, Default, PartialEq, Eq, Debug)]
pub struct RefDb {
    pub parts: BTreeMap<PKey, BTreeMap<Sort, Val>>,
}

impl RefDb {
    pub fn apply(&mut self, c: &Commit) {
        for a in &c.0 {
            self.apply_atom(a);
        }
    }
    pub fn apply_atom(&mut self, a: &Atom) {
        let pk = a.pkey();
        let mut p = self.parts.remove(&pk).unwrap_or_default();
        match &a.pu {
            PU::Delta(v) => {
                for (k, x) in v {
                    match x {
                        Some(val) => {
                            p.insert(k.clone(), val.clone());
                        }
                        None => {
                            p.remove(k);
                        }
                    }
                }
            }
            PU::Reset(v) => {
                p = v.iter().cloned().collect();
            }
        }
        if !p.is_empty() {
            self.parts.insert(pk, p);
        }
    }
    pub fn get(&self, pk: &PKey, k: &Sort) -> Option<Val> {
        self.parts.get(pk).and_then(|p| p.get(k)).cloned()
    }
    pub fn list_from(&self, pk: &PKey, from: Option<&Sort>) -> Vec<(Sort, Val)> {
        match self.parts.get(pk) {
            None => vec![],
            Some(p) => p.iter().filter(|(k, _)| from.map(|f| *k >= f).unwrap_or(true)).map(|(k, v)| (k.clone(), v.clone())).collect(),
        }
    }
    pub fn partition_keys(&self) -> Vec<PKey> {
        self.parts.keys().cloned().collect()
    }
    pub fn len(&self) -> usize {
        self.parts.values().map(|p| p.len()).sum()
    }
    pub fn canonical_bytes(&self) -> Vec<u8> {
        let mut out = vec![];
        for ((n, p), m) in &self.parts {
            out.push(n.len() as u8);
            out.extend(n);
            out.push(*p);
            out.push(m.len() as u8);
            for (k, v) in m {
                out.push(k.len() as u8);
                out.extend(k);
                out.push(v.len() as u8);
                out.extend(v);
            }
        }
        out
    }
    pub fn to_json(&self) -> Value {
        Value::Array(
            self.parts
                .iter()
                .map(|((n, p), m)| json!({"node": mc_core::hex(n), "partition": p, "substates": m.iter().map(|(k, v)| json!([mc_core::hex(k), mc_core::hex(v)])).collect::<Vec<_>>()}))
                .collect(),
        )
    }
}

// ---------------------------------------------------------------------------------------------
// reading a real store into comparable plain data
// ---------------------------------------------------------------------------------------------

pub fn pk(p: &PKey) -> DbPartitionKey {
    DbPartitionKey { node_key: p.0.clone(), partition_num: p.1 }
}

pub fn real_get<D: SubstateDatabase + ?Sized>(db: &D, p: &PKey, k: &Sort) -> Option<Val> {
    db.get_raw_substate_by_db_key(&pk(p), &DbSortKey(k.clone()))
}

pub fn real_list<D: SubstateDatabase + ?Sized>(db: &D, p: &PKey, from: Option<&Sort>) -> Vec<(Sort, Val)> {
    let from = from.map(|f| DbSortKey(f.clone()));
    db.list_raw_values_from_db_key(&pk(p), from.as_ref()).map(|(k, v)| (k.0, v)).collect()
}

/// `list_partition_keys` as a sorted list (the interface promises no order); duplicates are kept so
/// that a store listing a partition twice is visible.
pub fn real_partition_keys<D: ListableSubstateDatabase + ?Sized>(db: &D) -> Vec<PKey> {
    let mut v: Vec<PKey> = db.list_partition_keys().map(|k| (k.node_key, k.partition_num)).collect();
    v.sort();
    v
}

/// Whole contents of a listable store, read only through the public interfaces.
pub fn real_contents<D: SubstateDatabase + ListableSubstateDatabase + ?Sized>(db: &D) -> RefDb {
    let mut out = RefDb::default();
    for p in real_partition_keys(db) {
        let m: BTreeMap<Sort, Val> = real_list(db, &p, None).into_iter().collect();
        out.parts.insert(p, m);
    }
    out
}

pub fn show_list(l: &[(Sort, Val)]) -> String {
    let v: Vec<String> = l.iter().map(|(k, v)| format!("{}={}", mc_core::hex(k), mc_core::hex(v))).collect();
    format!("[{}]", v.join(","))
}

pub fn show_opt(v: &Option<Val>) -> String {
    match v {
        Some(v) => mc_core::hex(v),
        None => "none".into(),
    }
}

#[allow(dead_code)]
pub fn hash_of(v: &[u8]) -> Hash {
    hash(v)
}

// ---------------------------------------------------------------------------------------------
// compact op handles: histories are stored as indices into one global commit table per run
// ---------------------------------------------------------------------------------------------

static TABLE: std::sync::OnceLock<Vec<Commit>> = std::sync::OnceLock::new();

/// Install the commit table of this run (once). Histories are lists of `OpIx`.
pub fn install_table(t: Vec<Commit>) -> &'static [Commit] {
    if TABLE.set(t).is_err() {
        mc_core::machinery_error("commit table installed twice");
    }
    TABLE.get().unwrap()
}

pub fn table() -> &'static [Commit] {
    TABLE.get().map(|v| v.as_slice()).unwrap_or(&[])
}

#[derive(Clone, Copy, PartialEq, Eq, Hash, PartialOrd, Ord)]
pub struct OpIx(pub u16);

impl OpIx {
    pub fn commit(&self) -> &'static Commit {
        &table()[self.0 as usize]
    }
}

impl fmt::Debug for OpIx {
    fn fmt(&self, f: &mut fmt::Formatter<'_>) -> fmt::Result {
        write!(f, "{}", self.commit().to_json())
    }
}

/// Parse the `history` array of a replay case into commits.
pub fn history_from_case(case: &Value) -> Vec<Commit> {
    let Some(a) = case.get("history").and_then(|h| h.as_array()) else {
        mc_core::machinery_error("replay case has no history array");
    };
    a.iter().map(|e| Commit::from_history_entry(e).unwrap_or_else(|| mc_core::machinery_error("unparsable history entry in replay case"))).collect()
}
