//! mc-store: serves C14 C15 C17 C18 C19 (one module per property).
use mc_core::Ctx;

mod alphabet;
mod refmerkle;
mod treekeys;

mod c14;
mod c15;
mod c17;
mod c18;
mod c19;

fn main() {
    let ctx = Ctx::from_args();
    match ctx.id.as_str() {
        "C14" => c14::run(ctx),
        "C15" => c15::run(ctx),
        "C17" => c17::run(ctx),
        "C18" => c18::run(ctx),
        "C19" => c19::run(ctx),
        other => mc_core::machinery_error(&format!("mc-store does not serve {other}")),
    }
}
