use mc_core::Ctx;

fn main() {
    let ctx = Ctx::from_args();
    match ctx.id.as_str() {
        other => mc_core::machinery_error(&format!("mc-store does not serve {other}")),
    }
}
