//! Independent sparse-Merkle commitment (DESIGN Appendix A.6), written from the definition and not
//! from the JMT code: no nibbles, no versions, no stored nodes — a bitwise recursion over sorted leaves.
//!
//!   leaf(key, value_hash) = H(key ‖ value_hash)
//!   tree(∅)               = 32 zero bytes
//!   tree({one leaf})      = that leaf's hash (wherever it sits)
//!   tree(L)               = H(tree(L|bit=0) ‖ tree(L|bit=1)), bits of the key MSB first
//!
//! Three nested tiers: substate tier (key = sort key, value hash = H(value)); partition tier (key = the
//! partition byte, value hash = substate-tier root); entity tier (key = db node key, value hash =
//! partition-tier root). A tier that is empty has no leaf one tier up. Only blake2b-256 is shared with
//! the code under test.
use crate::alphabet::{NodeKey, RefDb, Sort};
use radix_common::prelude::{hash, Hash};
use std::collections::BTreeMap;

pub const ZERO: Hash = Hash([0u8; Hash::LENGTH]);

fn bit(key: &[u8], i: usize) -> bool {
    (key[i / 8] >> (7 - (i % 8))) & 1 == 1
}

fn leaf_hash(key: &[u8], value_hash: &Hash) -> Hash {
    let mut buf = Vec::with_capacity(key.len() + 32);
    buf.extend_from_slice(key);
    buf.extend_from_slice(&value_hash.0);
    hash(buf)
}

fn rec(leaves: &[(&[u8], Hash)], depth: usize) -> Hash {
    match leaves.len() {
        0 => ZERO,
        1 => leaf_hash(leaves[0].0, &leaves[0].1),
        _ => {
            // leaves are sorted bytewise, so those with bit=0 at `depth` come first
            let split = leaves.iter().position(|(k, _)| bit(k, depth)).unwrap_or(leaves.len());
            let l = rec(&leaves[..split], depth + 1);
            let r = rec(&leaves[split..], depth + 1);
            let mut buf = [0u8; 64];
            buf[..32].copy_from_slice(&l.0);
            buf[32..].copy_from_slice(&r.0);
            hash(buf)
        }
    }
}

/// Root of one tier over (key, value hash) leaves. Keys must be pairwise distinct and of equal length
/// (the documented precondition of the tree; the harness alphabets guarantee it).
pub fn tier_root(leaves: &BTreeMap<Vec<u8>, Hash>) -> Hash {
    let v: Vec<(&[u8], Hash)> = leaves.iter().map(|(k, h)| (k.as_slice(), *h)).collect();
    rec(&v, 0)
}

/// The three-tier state root of a reference database.
pub fn state_root(db: &RefDb) -> Hash {
    let mut entities: BTreeMap<NodeKey, BTreeMap<Vec<u8>, Hash>> = BTreeMap::new();
    for ((node, part), substates) in &db.parts {
        if substates.is_empty() {
            continue;
        }
        let leaves: BTreeMap<Vec<u8>, Hash> = substates.iter().map(|(k, v)| (k.clone(), hash(v))).collect();
        entities.entry(node.clone()).or_default().insert(vec![*part], tier_root(&leaves));
    }
    let top: BTreeMap<Vec<u8>, Hash> = entities.into_iter().map(|(node, parts)| (node, tier_root(&parts))).collect();
    tier_root(&top)
}

/// {partition -> {sort key -> H(value)}} of the reference database.
pub fn substate_hashes(db: &RefDb) -> BTreeMap<(NodeKey, u8), BTreeMap<Sort, Hash>> {
    db.parts.iter().filter(|(_, m)| !m.is_empty()).map(|(p, m)| (p.clone(), m.iter().map(|(k, v)| (k.clone(), hash(v))).collect())).collect()
}
