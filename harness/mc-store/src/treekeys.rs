//! Key alphabet shared by the state-tree checks (C17 C18 C19): keys that force deep shared nibble paths
//! and respect the tree's documented precondition (all leaf keys of one tier have the same length).
use crate::alphabet::*;

pub fn entities() -> Vec<NodeKey> {
    vec![vec![0x11, 0x11, 0x11, 0x11], vec![0x11, 0x11, 0x11, 0x12], vec![0x91, 0x11, 0x11, 0x11]]
}

pub fn partitions() -> Vec<u8> {
    vec![0x00, 0x01, 0x10]
}

pub fn sort_keys() -> Vec<Sort> {
    vec![vec![0x00, 0x00], vec![0x00, 0x01], vec![0x00, 0x10], vec![0x80, 0x00]]
}

pub const V1: &[u8] = &[0x01];
pub const V2: &[u8] = &[0x02, 0x02];

/// Single-partition updates for one partition. `full` = every combination named in the design;
/// otherwise a core subset that still contains every kind (set new / overwrite, delete, reset with 0, 1, 2
/// values) and key pairs that share 0, 11 and 12 leading bits.
pub fn partition_updates(full: bool) -> Vec<PU> {
    let ks = sort_keys();
    let mut out = vec![];
    for (i, k) in ks.iter().enumerate() {
        out.push(PU::Delta(vec![(k.clone(), Some(V1.to_vec()))]));
        if full || i == 0 {
            out.push(PU::Delta(vec![(k.clone(), Some(V2.to_vec()))]));
        }
    }
    for (i, k) in ks.iter().enumerate() {
        if full || i < 2 {
            out.push(PU::Delta(vec![(k.clone(), None)]));
        }
    }
    out.push(PU::Reset(vec![]));
    for (i, k) in ks.iter().enumerate() {
        if full || i == 1 {
            out.push(PU::Reset(vec![(k.clone(), V1.to_vec())]));
        }
    }
    for i in 0..ks.len() {
        for j in (i + 1)..ks.len() {
            if full || (i, j) == (0, 3) {
                out.push(PU::Reset(vec![(ks[i].clone(), V1.to_vec()), (ks[j].clone(), V2.to_vec())]));
            }
        }
    }
    out
}

/// The partitions that updates address. `full` = all 9; otherwise 4 that still give: two partitions of
/// one entity, two entities sharing 31 leading key bits, one entity differing in the first bit.
pub fn addressed_partitions(full: bool) -> Vec<PKey> {
    let e = entities();
    let p = partitions();
    if full {
        let mut out = vec![];
        for n in &e {
            for q in &p {
                out.push((n.clone(), *q));
            }
        }
        out
    } else {
        vec![(e[0].clone(), p[0]), (e[0].clone(), p[1]), (e[1].clone(), p[0]), (e[2].clone(), p[2])]
    }
}

pub fn atoms(full_parts: bool, full_updates: bool) -> Vec<Atom> {
    let mut out = vec![];
    for (n, q) in addressed_partitions(full_parts) {
        for pu in partition_updates(full_updates) {
            out.push(Atom { node: n.clone(), part: q, pu });
        }
    }
    out
}
